CONSTANTS
  Keys = {1, 2, 3}
  Vals = {1}
  MaxCap = 4
  None = 0
  Mode = "hist"
  MaxLen = 7
SPECIFICATION MCSpec
CONSTRAINT LenBound
INVARIANTS Bounded LatestWins Leaf
PROPERTIES MCGetReturnsHeld MCEvictsLRU MCPutTakesEffect
CHECK_DEADLOCK FALSE
