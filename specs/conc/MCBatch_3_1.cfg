CONSTANTS
  N = 3
  AllowUserCancel = TRUE
  W = 1
SPECIFICATION Spec
INVARIANTS OneResultEach CountsMatch RunsAtMostOnce StopOnError StopOnErrorFinal ResultsTruthful Channels Emit
PROPERTY Terminates
CHECK_DEADLOCK FALSE
