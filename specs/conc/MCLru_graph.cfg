CONSTANTS
  Keys = {1, 2, 3, 4}
  Vals = {1, 2}
  MaxCap = 4
  None = 0
  Mode = "graph"
  MaxLen = 0
SPECIFICATION MCSpec
VIEW View
INVARIANTS Bounded
PROPERTIES MCGetReturnsHeld MCEvictsLRU MCPutTakesEffect
CHECK_DEADLOCK FALSE
