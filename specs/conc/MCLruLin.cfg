CONSTANTS
  Keys = {1, 2}
  Vals = {1, 2}
  MaxCap = 2
  None = 0
  Threads = {1, 2}
  MaxOps = 2
SPECIFICATION MSpec
INVARIANT LinInv
CHECK_DEADLOCK FALSE
