----------------------------- MODULE BatchTrace -----------------------------
(* B2 for C22: an execution of the real worker pool, recorded by the hooks at its linearization points
   (each hooked action runs under a global step lock and is logged before the lock is released, so the
   order of events IS the order in which the actions took effect), must be a behaviour of Batch.

   N and W are upper bounds here; the case header (reset) fixes the actual numbers.                   *)
EXTENDS Batch, TraceLib

VARIABLES l, n, nw
tvars == <<vars, l, n, nw>>

IsEvent(e) == l <= NRec /\ Rec[l].ev = e /\ l' = l + 1
E == Rec[l]

TInit == /\ l = 1 /\ n = 0 /\ nw = 0
         /\ outcome = [j \in Jobs |-> "ok"] /\ stopOnError = FALSE /\ cancel = FALSE /\ preCancel = FALSE
         /\ di = 1 /\ dpc = "done"
         /\ queue = <<>> /\ chanOpen = FALSE
         /\ wst = [w \in Workers |-> "exited"] /\ wjob = [w \in Workers |-> 0]
         /\ jst = [j \in Jobs |-> "new"] /\ jres = [j \in Jobs |-> "none"] /\ todo = [j \in Jobs |-> {}]
         /\ running = 0 /\ completed = 0 /\ failed = 0
         /\ resq = <<>> /\ senders = 0 /\ results = [j \in Jobs |-> "none"]
         /\ summary = NoSummary
         /\ opRuns = [j \in Jobs |-> 0] /\ recorded = FALSE /\ startedAtRecord = {}

\* a new case: the state Batch!Init describes, for the configuration in the header.  Jobs beyond n do not
\* exist: they are parked in "finished"/"cancelled"-like terminal states and the dispatcher starts at 1.
TReset == /\ IsEvent("reset")
          /\ n' = E.n /\ nw' = E.w
          /\ outcome' = [j \in Jobs |-> IF j <= E.n THEN E.outcome[j] ELSE "ok"]
          /\ stopOnError' = E.stopOnError /\ cancel' = E.preCancel /\ preCancel' = E.preCancel
          /\ di' = 1 /\ dpc' = "check"
          /\ queue' = <<>> /\ chanOpen' = TRUE
          /\ wst' = [w \in Workers |-> IF w <= E.w THEN "idle" ELSE "exited"] /\ wjob' = [w \in Workers |-> 0]
          /\ jst' = [j \in Jobs |-> "new"] /\ jres' = [j \in Jobs |-> "none"] /\ todo' = [j \in Jobs |-> {}]
          /\ running' = 0 /\ completed' = 0 /\ failed' = 0
          /\ resq' = <<>> /\ senders' = 1 /\ results' = [j \in Jobs |-> "none"]
          /\ summary' = NoSummary
          /\ opRuns' = [j \in Jobs |-> 0] /\ recorded' = FALSE /\ startedAtRecord' = {}

Keep == UNCHANGED <<n, nw>>

\* dispatcher.  Batch!DCheck/DClose are phrased with the constant N; with n jobs the dispatcher closes at n + 1.
TDCheck == /\ IsEvent("d_check") /\ E.j = di /\ di <= n
           /\ DCheck
           /\ (E.b = 1) = cancel
           /\ Keep
TDSend == IsEvent("d_send") /\ E.j = di /\ DSend /\ Keep
TDClose == /\ IsEvent("d_close")
           /\ dpc = "check" /\ di = n + 1
           /\ chanOpen' = FALSE /\ senders' = senders - 1 /\ dpc' = "joining"
           /\ UNCHANGED <<outcome, stopOnError, cancel, di, queue, wst, wjob, jst, jres, todo, running, completed,
                          failed, resq, results, summary, opRuns, recorded, startedAtRecord, preCancel>>
           /\ Keep
TDJoined == IsEvent("d_joined") /\ DJoined /\ Keep

\* workers
TWRecv == /\ IsEvent("w_recv")
          /\ IF E.j = 0 THEN WRecvClosed(E.w)
                        ELSE WRecvJob(E.w) /\ Head(queue) = E.j
          /\ Keep
TWDone == IsEvent("w_done") /\ wjob[E.w] = E.j /\ JDone(E.w) /\ Keep

\* job wrapper
TJStart == IsEvent("j_start") /\ JStart(E.j) /\ Keep
TJLoad == IsEvent("j_cload") /\ JLoad(E.j) /\ (E.b = 1) = cancel /\ Keep
TOpBegin == IsEvent("op_begin") /\ JOpBegin(E.j) /\ Keep
TOpEnd == IsEvent("op_end") /\ JOpEnd(E.j) /\ E.outcome = outcome[E.j] /\ Keep
KindCode(j) == CASE jres[j] = "ok" -> 0 [] jres[j] = "fail" -> 1 [] OTHER -> 2
TJProgress == IsEvent("j_progress") /\ JProgress(E.j) /\ E.b = KindCode(E.j) /\ Keep
TJSend == IsEvent("j_send") /\ JSend(E.j) /\ E.b = KindCode(E.j) /\ Keep
TJStore == IsEvent("j_cstore") /\ JStore(E.j) /\ Keep

\* the user (here: the operation of job E.j, while it runs) cancels the batch
TUserCancel == IsEvent("u_cancel") /\ UserCancel /\ Keep

\* collector
TCRecv == IsEvent("c_recv") /\ resq # <<>> /\ Head(resq).job = E.j /\ Head(resq).kind = E.kind /\ CRecv /\ Keep

\* what process_jobs returned and what the progress tracker shows afterwards
TSummary == /\ IsEvent("summary")
            /\ dpc = "joined" /\ resq = <<>> /\ senders = 0
            /\ E.len = n /\ E.inOrder
            /\ \A j \in 1..n : E.results[j] = results[j] /\ results[j] # "none"
            /\ E.running = running /\ E.completed = completed /\ E.failedJobs = failed
            /\ E.cancelFlag = cancel
            /\ running = 0
            /\ completed = Cardinality({j \in 1..n : results[j] = "ok"})
            /\ failed = Cardinality({j \in 1..n : results[j] = "fail"})
            /\ dpc' = "done"
            /\ UNCHANGED <<outcome, stopOnError, cancel, di, queue, chanOpen, wst, wjob, jst, jres, todo, running,
                           completed, failed, resq, senders, results, summary, opRuns, recorded, startedAtRecord, preCancel>>
            /\ Keep

(* The final state of a batch whose events were NOT logged (stress: 16 all-succeeding jobs on 4 workers, released
   in waves so that workers finish together).  Every behaviour of Batch ends in a state satisfying OneResultEach
   and CountsMatch, so whatever happened inside, the observed summary and progress counters must satisfy them.  *)
TStressFinal == /\ IsEvent("stress_final")
                /\ E.len = E.n /\ E.total = E.n /\ E.inOrder
                /\ \A j \in 1..E.n : E.results[j] = "ok"
                /\ E.successful = E.n /\ E.failed = 0
                /\ E.running = 0 /\ E.completed = E.successful /\ E.failedJobs = E.failed
                /\ UNCHANGED vars /\ Keep

TNext == \/ TStressFinal \/ TReset \/ TDCheck \/ TDSend \/ TDClose \/ TDJoined \/ TWRecv \/ TWDone
         \/ TJStart \/ TJLoad \/ TOpBegin \/ TOpEnd \/ TJProgress \/ TJSend \/ TJStore \/ TUserCancel
         \/ TCRecv \/ TSummary

TraceSpec == TInit /\ [][TNext]_tvars

Prog == Progress(l)

\* the safety properties are evaluated in every state of the recorded execution as well
TraceInv == RunsAtMostOnce /\ StopOnError /\ ResultsTruthful /\ Channels
=============================================================================
