------------------------------ MODULE MCFilters ------------------------------
(* Design-level check and B1 generator for C07 (and the vectors of C08).

   For every byte string over a boundary alphabet up to MaxLen, every filter, every variation the standard
   allows and (for the predictor-capable filters) a grid of predictor parameters, the reference ENCODER's output
   is decoded by the reference DECODER machine and must give the data back (the specification checks itself),
   and the triple (filters, encoded, data) is printed for replay on the library.  Chains of two filters compose
   encoders in reverse order.  FlateDecode's codec is the zlib primitive.                                   *)
EXTENDS Filters, Prim

CONSTANTS MaxLen, ChainLen, PredRows

Alpha == {0, 1, 127, 128, 254, 255}
RECURSIVE SeqsUpTo(_)
SeqsUpTo(n) == IF n = 0 THEN {<<>>} ELSE LET S == SeqsUpTo(n - 1) IN S \cup {Append(s, a) : s \in {t \in S : Len(t) = n - 1}, a \in Alpha}
Data == SeqsUpTo(MaxLen)
\* a few longer strings with runs, zero groups and table growth
Extra == { [i \in 1..9 |-> 0], [i \in 1..8 |-> 255], <<0, 0, 0, 0, 1>>, <<1, 0, 0, 0, 0, 0, 0, 0, 0, 2>>,
           [i \in 1..12 |-> IF i % 3 = 0 THEN 7 ELSE 65], [i \in 1..130 |-> 90], [i \in 1..131 |-> (i * 37) % 256],
           <<255, 255, 255, 255>>, <<255, 255, 255, 255, 255>>, [i \in 1..40 |-> (i * i) % 5] }

NoParm == [Predictor |-> 1]
FlateData == {<<>>, <<0>>, <<255, 0>>, <<0, 0, 0, 0, 1>>, <<1, 127, 128>>}
V0 == [lower |-> FALSE, ws |-> 0, trim |-> FALSE, mode |-> 0, clr |-> 0, fts |-> <<0>>]

Singles ==
  {[f |-> [name |-> "ASCIIHexDecode", parms |-> NoParm], v |-> [V0 EXCEPT !.lower = l, !.ws = w]] : l \in BOOLEAN, w \in 0..3}
  \cup {[f |-> [name |-> "ASCIIHexDecode", parms |-> NoParm], v |-> [V0 EXCEPT !.trim = TRUE]]}
  \cup {[f |-> [name |-> "ASCII85Decode", parms |-> NoParm], v |-> [V0 EXCEPT !.ws = w]] : w \in 0..2}
  \cup {[f |-> [name |-> "RunLengthDecode", parms |-> NoParm], v |-> [V0 EXCEPT !.mode = m]] : m \in 0..1}
  \cup {[f |-> [name |-> "LZWDecode", parms |-> [Predictor |-> 1, EarlyChange |-> e]], v |-> [V0 EXCEPT !.clr = c]] : e \in 0..1, c \in {0, 2}}
  \cup {[f |-> [name |-> "LZWDecode", parms |-> NoParm], v |-> V0]}
  \cup {[f |-> [name |-> "FlateDecode", parms |-> NoParm], v |-> V0]}

EncodeF(f, d, v) == IF f.name = "FlateDecode" THEN Deflate(EncodeOne([name |-> "Identity", parms |-> f.parms], d, v)) ELSE EncodeOne(f, d, v)
DecodeF(f, bs) == IF f.name = "FlateDecode" THEN DecodeOne([name |-> "Identity", parms |-> f.parms], Inflate(bs)) ELSE DecodeOne(f, bs)

\* chains: fs[1] is decoded first, hence encoded last
RECURSIVE EncodeChain(_, _, _)
EncodeChain(fs, vs, d) == IF fs = <<>> THEN d ELSE EncodeF(fs[1], EncodeChain(Tail(fs), Tail(vs), d), vs[1])
RECURSIVE DecodeChain(_, _)
DecodeChain(fs, bs) == IF fs = <<>> THEN [ok |-> TRUE, out |-> bs]
                       ELSE LET r == DecodeF(fs[1], bs) IN IF r.ok THEN DecodeChain(Tail(fs), r.out) ELSE r

Emit(fs, enc, d, kind) == PrintT(<<"REPLAY", ToJson([filters |-> fs, enc |-> enc, data |-> d, kind |-> kind])>>)

CheckCase(fs, vs, d, kind) ==
  LET enc == EncodeChain(fs, vs, d)
      r == DecodeChain(fs, enc)
  IN /\ Assert(r.ok /\ r.out = d, <<"reference decoder does not invert reference encoder", fs, vs, d, enc, r>>)
     /\ Emit(fs, enc, d, kind)

(* ---- predictor grid ---- *)
PatData(k, n) == [i \in 1..n |-> CASE k = 1 -> (i * 37 + 11) % 256 [] k = 2 -> (i * i * 7 + 250) % 256 [] OTHER -> <<255, 0, 128, 1>>[(i % 4) + 1]]
\* rows whose padding bits are zero (sub-byte samples): normalise through Unpack/Pack
NormRows(d, p) == LET rb == RowBytes(p) n == PColumns(p) * PColors(p) IN
  IF PBpc(p) >= 8 THEN d
  ELSE Concat([r \in 1..(Len(d) \div rb) |-> Pack(Unpack(SubSeq(d, (r - 1) * rb + 1, r * rb), PBpc(p), n), PBpc(p), rb)])
PredParms ==
  {[Predictor |-> pr, Colors |-> c, BitsPerComponent |-> b, Columns |-> col] :
      pr \in {2, 10, 11, 12, 13, 14, 15}, c \in 1..4, b \in {1, 2, 4, 8, 16}, col \in {1, 2, 3, 5}}
FtsFor(p) == IF p.Predictor = 15 THEN {<<1, 2, 3, 4, 0>>, <<4, 3>>, <<3>>} ELSE IF p.Predictor >= 10 THEN {<<p.Predictor - 10>>} ELSE {<<0>>}
ChainNames == {"ASCIIHexDecode", "ASCII85Decode", "RunLengthDecode", "LZWDecode", "FlateDecode"}
ChainData == {d \in Data : Len(d) <= ChainLen} \cup {<<0, 0, 0, 0, 1>>, [i \in 1..9 |-> 0], <<1, 127, 128>>}

PredOK(n, p) == n = "LZWDecode" => (p.Columns \in {2, 5} /\ p.Colors \in {1, 3})
PredOKF(n, p) == n = "FlateDecode" => (p.Columns = 3 /\ p.Colors \in {1, 4} /\ p.BitsPerComponent \in {2, 8, 16} /\ p.Predictor \in {2, 12, 15})

VARIABLE phase
Init == phase = 1
Next == /\ phase <= 4
        /\ phase' = phase + 1
        /\ CASE phase = 1 ->
                  \A c \in Singles : \A d \in Data \cup Extra :
                     (c.f.name # "FlateDecode" \/ d \in Extra \/ d \in FlateData) => CheckCase(<<c.f>>, <<c.v>>, d, "single")
             [] phase = 2 ->
                  \A n \in {"LZWDecode"}, p \in PredParms : PredOK(n, p) =>
                     \A ft \in FtsFor(p), k \in 1..3, rows \in PredRows :
                        CheckCase(<<[name |-> n, parms |-> p]>>, <<[V0 EXCEPT !.fts = ft]>>, NormRows(PatData(k, RowBytes(p) * rows), p), "pred")
             [] phase = 3 ->
                  \A n \in {"FlateDecode"}, p \in PredParms : PredOKF(n, p) =>
                     \A ft \in FtsFor(p), k \in 1..1, rows \in PredRows :
                        CheckCase(<<[name |-> n, parms |-> p]>>, <<[V0 EXCEPT !.fts = ft]>>, NormRows(PatData(k, RowBytes(p) * rows), p), "pred")
             [] OTHER ->
                  \A a \in ChainNames, b \in ChainNames : \A d \in ChainData :
                     (("FlateDecode" \notin {a, b}) \/ d \in FlateData) =>
                     CheckCase(<<[name |-> a, parms |-> NoParm], [name |-> b, parms |-> NoParm]>>, <<[V0 EXCEPT !.ws = 1], [V0 EXCEPT !.mode = 1]>>, d, "chain")
Spec == Init /\ [][Next]_phase
=============================================================================
