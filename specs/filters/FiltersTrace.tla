---------------------------- MODULE FiltersTrace ----------------------------
(* B2 for C07.  One case per stream handed to PdfStream::decode:

     case   filters (names + DecodeParms), the encoded bytes, the original data, what the library returned
            (dec | err | panic), and for long FlateDecode cases `mid` (the payload inflated by zlib itself)
     chk    the library's result is the reference decoding, and that is the data

   Short cases (any chain) are decided in one step by the reference decoders folded over the input.  Long cases
   (one filter) run the decoder MACHINE one silent TLC step per input byte; every step's emitted bytes must be
   the next bytes the library returned, so the state never holds the output.                                *)
EXTENDS Filters, Prim, TraceLib

VARIABLES l, cur, pos, ms, outn
tvars == <<l, cur, pos, ms, outn>>

IsEvent(e) == l <= NRec /\ Rec[l].ev = e /\ l' = l + 1
C == Rec[cur]
Long(c) == c.kind = "long"
Has(c, k) == k \in DOMAIN c

\* the machine's filter and input for a long case
LFilter(c) == IF c.filters[1].name = "FlateDecode" THEN [name |-> "Identity", parms |-> c.filters[1].parms] ELSE c.filters[1]
LInput(c) == IF c.filters[1].name = "FlateDecode" THEN c.mid ELSE c.enc

DecodeF(f, bs) ==
  IF f.name = "FlateDecode"
  THEN LET z == InflateR(bs) IN IF ~z.ok THEN [ok |-> FALSE, out |-> <<>>] ELSE DecodeOne([name |-> "Identity", parms |-> f.parms], z.out)
  ELSE DecodeOne(f, bs)
RECURSIVE DecodeChain(_, _)
DecodeChain(fs, bs) == IF fs = <<>> THEN [ok |-> TRUE, out |-> bs]
                       ELSE LET r == DecodeF(fs[1], bs) IN IF r.ok THEN DecodeChain(Tail(fs), r.out) ELSE r

Idle == [name |-> "Identity", m |-> [st |-> "run", emit |-> <<>>], pred |-> PredInit([Predictor |-> 1]), emit |-> <<>>]
TInit == l = 1 /\ cur = 0 /\ pos = 1 /\ ms = Idle /\ outn = 0

TCase == /\ IsEvent("case")
         /\ cur' = l /\ pos' = 1 /\ outn' = 0
         /\ ms' = IF Long(Rec[l]) THEN MInit(LFilter(Rec[l])) ELSE Idle

\* silent: one input byte of a long case
TStep == /\ cur > 0 /\ l <= NRec /\ Rec[l].ev = "chk" /\ Long(C) /\ Has(C, "dec")
         /\ pos <= Len(LInput(C))
         /\ LET t == MStep(ms, LInput(C)[pos]) n == Len(t.emit)
            IN /\ outn + n <= Len(C.dec)
               /\ \A i \in 1..n : C.dec[outn + i] = t.emit[i]
               /\ ms' = t /\ outn' = outn + n
         /\ pos' = pos + 1
         /\ UNCHANGED <<l, cur>>

TChk == /\ IsEvent("chk")
        /\ Has(C, "dec")                                  \* an error or a panic is not a decoding
        /\ IF Long(C)
           THEN /\ pos = Len(LInput(C)) + 1 /\ MOk(ms)
                /\ outn + Len(MTail(ms)) = Len(C.dec)
                /\ \A i \in 1..Len(MTail(ms)) : C.dec[outn + i] = MTail(ms)[i]
                /\ (C.data # <<>> => C.dec = C.data)
           ELSE LET r == DecodeChain(C.filters, C.enc) IN r.ok /\ r.out = C.dec /\ C.dec = C.data
        /\ UNCHANGED <<cur, pos, ms, outn>>

TNext == TCase \/ TStep \/ TChk
TraceSpec == TInit /\ [][TNext]_tvars
Prog == Progress(l)
=============================================================================
