------------------------------- MODULE Filters -------------------------------
(* Reference encoders and decoders for the stream filters of ISO 32000-1 7.4 that oxidizePdf implements itself:
   ASCIIHexDecode (7.4.2), ASCII85Decode (7.4.3), LZWDecode (7.4.4, both EarlyChange settings),
   RunLengthDecode (7.4.5) and the predictor functions of 7.4.4.4 (TIFF 2, PNG 10..15).  FlateDecode's codec is
   zlib, a third-party primitive (Prim.tla); what the library owns around it - filter order, DecodeParms
   selection, predictor after inflate - is here.

   Every DECODER is a machine  <Init, Step(s, byte), Finish(s)>  over a small state; a step returns the bytes it
   emits in s.emit, so that a trace specification can run it one TLC step per input byte against bytes claimed
   by the implementation without ever holding the whole output in the state (DESIGN section 2).  RunMachine
   folds a machine over a short input for model checking.  The ENCODERS are the reference encoders of the
   property: pure operators, with the variations the standard allows (white space, letter case, a dropped
   final hex digit, Clear codes in mid-stream) as parameters.                                              *)
EXTENDS Naturals, Sequences, FiniteSets

Bytes == 0..255
IsPdfWs(b) == b \in {0, 9, 10, 12, 13, 32}

RECURSIVE Concat(_)
Concat(ss) == IF ss = <<>> THEN <<>> ELSE ss[1] \o Concat(Tail(ss))
RECURSIVE Pow(_, _)
Pow(a, n) == IF n = 0 THEN 1 ELSE a * Pow(a, n - 1)
Min2(a, b) == IF a < b THEN a ELSE b

(* =============================== ASCIIHexDecode =============================== *)
HexU == <<48, 49, 50, 51, 52, 53, 54, 55, 56, 57, 65, 66, 67, 68, 69, 70>>
HexL == <<48, 49, 50, 51, 52, 53, 54, 55, 56, 57, 97, 98, 99, 100, 101, 102>>

\* ws: 0 none; 1 a SPACE after every byte; 2 a LINE FEED between the two digits of every byte; 3 CR LF TAB FF mix
HexWs(ws, i) == CASE ws = 0 -> <<>> [] ws = 1 -> <<32>> [] ws = 2 -> <<>> [] OTHER -> <<<<13, 10>>, <<9>>, <<12>>, <<32, 32>>>>[(i % 4) + 1]
HexMid(ws) == IF ws = 2 THEN <<10>> ELSE <<>>
RECURSIVE HexBody(_, _, _, _)
HexBody(d, i, tab, ws) ==
  IF i > Len(d) THEN <<>>
  ELSE <<tab[(d[i] \div 16) + 1]>> \o HexMid(ws) \o <<tab[(d[i] % 16) + 1]>> \o HexWs(ws, i) \o HexBody(d, i + 1, tab, ws)
\* trim: a final digit 0 may be left out ("if the filter encounters EOD after an odd number of digits it behaves as if a 0 followed")
HexEnc(d, lower, ws, trim) ==
  LET body == HexBody(d, 1, IF lower THEN HexL ELSE HexU, IF trim THEN 0 ELSE ws)
      b2 == IF trim /\ Len(d) > 0 /\ d[Len(d)] % 16 = 0 THEN SubSeq(body, 1, Len(body) - 1) ELSE body
  IN b2 \o <<62>>

HexVal(b) == IF b >= 48 /\ b <= 57 THEN b - 48 ELSE IF b >= 65 /\ b <= 70 THEN b - 55 ELSE IF b >= 97 /\ b <= 102 THEN b - 87 ELSE 16

HexInit == [st |-> "run", hi |-> 16, emit |-> <<>>]
HexStep(s, b) ==
  IF s.st # "run" THEN [s EXCEPT !.emit = <<>>]                       \* bytes after EOD are not the filter's business
  ELSE IF IsPdfWs(b) THEN [s EXCEPT !.emit = <<>>]
  ELSE IF b = 62 THEN [st |-> "done", hi |-> 16, emit |-> IF s.hi = 16 THEN <<>> ELSE <<s.hi * 16>>]
  ELSE IF HexVal(b) = 16 THEN [s EXCEPT !.st = "err", !.emit = <<>>]
  ELSE IF s.hi = 16 THEN [s EXCEPT !.hi = HexVal(b), !.emit = <<>>]
  ELSE [s EXCEPT !.hi = 16, !.emit = <<s.hi * 16 + HexVal(b)>>]
\* end of data without EOD: lenient readers flush a pending digit; the reference encoders always write EOD
HexFinish(s) == IF s.st = "err" THEN [ok |-> FALSE, emit |-> <<>>]
                ELSE [ok |-> TRUE, emit |-> IF s.st = "run" /\ s.hi # 16 THEN <<s.hi * 16>> ELSE <<>>]

(* =============================== ASCII85Decode =============================== *)
\* a 4-byte group as a base-256 number, divided by 85 five times: the remainders are the digits, last first
DivStep(limbs, k) ==       \* limbs: 4 big-endian base-256 digits; returns <<quotient limbs, remainder>>
  LET q1 == limbs[1] \div k                       r1 == limbs[1] % k
      q2 == (r1 * 256 + limbs[2]) \div k          r2 == (r1 * 256 + limbs[2]) % k
      q3 == (r2 * 256 + limbs[3]) \div k          r3 == (r2 * 256 + limbs[3]) % k
      q4 == (r3 * 256 + limbs[4]) \div k          r4 == (r3 * 256 + limbs[4]) % k
  IN <<<<q1, q2, q3, q4>>, r4>>
A85Digits(g) ==            \* five base-85 digits, most significant first
  LET s1 == DivStep(g, 85) s2 == DivStep(s1[1], 85) s3 == DivStep(s2[1], 85) s4 == DivStep(s3[1], 85) s5 == DivStep(s4[1], 85)
  IN <<s5[2], s4[2], s3[2], s2[2], s1[2]>>
A85Group(g) == [i \in 1..5 |-> A85Digits(g)[i] + 33]

\* ws: 0 none; 1 LF after every group; 2 a SPACE inside every group (after its second character)
A85Split(c5, ws) == IF ws = 2 THEN SubSeq(c5, 1, 2) \o <<32>> \o SubSeq(c5, 3, Len(c5)) ELSE c5
RECURSIVE A85Body(_, _, _)
A85Body(d, i, ws) ==
  IF i > Len(d) THEN <<>>
  ELSE IF i + 3 <= Len(d)
       THEN LET g == SubSeq(d, i, i + 3)
            IN (IF g = <<0, 0, 0, 0>> THEN <<122>> ELSE A85Split(A85Group(g), ws)) \o (IF ws = 1 THEN <<10>> ELSE <<>>) \o A85Body(d, i + 4, ws)
       ELSE LET n == Len(d) - i + 1
                g == SubSeq(d, i, Len(d)) \o [j \in 1..(4 - n) |-> 0]
            IN A85Split(SubSeq(A85Group(g), 1, n + 1), ws)              \* n bytes -> n + 1 characters, never z
A85Enc(d, ws) == A85Body(d, 1, ws) \o <<126, 62>>

\* limbs * 85 + digit, most significant limb first; the fifth element is the carry out (non-zero = overflow)
MulAdd(l, k, a) ==
  LET t4 == l[4] * k + a            t3 == l[3] * k + (t4 \div 256)
      t2 == l[2] * k + (t3 \div 256) t1 == l[1] * k + (t2 \div 256)
  IN <<t1 % 256, t2 % 256, t3 % 256, t4 % 256, t1 \div 256>>
RECURSIVE A85Value(_, _, _)
A85Value(ds, i, acc) == IF i > Len(ds) THEN acc
                        ELSE LET m == MulAdd(acc, 85, ds[i]) IN IF m[5] # 0 THEN <<0, 0, 0, 0, 1>> ELSE A85Value(ds, i + 1, m)

A85Init == [st |-> "run", grp |-> <<>>, emit |-> <<>>]
A85Step(s, b) ==
  IF s.st \in {"done", "err"} THEN [s EXCEPT !.emit = <<>>]
  ELSE IF s.st = "tilde" THEN
       IF b = 62 THEN
            IF s.grp = <<>> THEN [st |-> "done", grp |-> <<>>, emit |-> <<>>]
            ELSE IF Len(s.grp) = 1 THEN [st |-> "err", grp |-> <<>>, emit |-> <<>>]
            ELSE LET v == A85Value(s.grp \o [j \in 1..(5 - Len(s.grp)) |-> 84], 1, <<0, 0, 0, 0, 0>>)
                 IN IF v[5] # 0 THEN [st |-> "err", grp |-> <<>>, emit |-> <<>>]
                    ELSE [st |-> "done", grp |-> <<>>, emit |-> SubSeq(v, 1, Len(s.grp) - 1)]
       ELSE [st |-> "err", grp |-> <<>>, emit |-> <<>>]
  ELSE IF IsPdfWs(b) THEN [s EXCEPT !.emit = <<>>]
  ELSE IF b = 126 THEN [s EXCEPT !.st = "tilde", !.emit = <<>>]
  ELSE IF b = 122 THEN IF s.grp = <<>> THEN [s EXCEPT !.emit = <<0, 0, 0, 0>>] ELSE [st |-> "err", grp |-> <<>>, emit |-> <<>>]
  ELSE IF b < 33 \/ b > 117 THEN [st |-> "err", grp |-> <<>>, emit |-> <<>>]
  ELSE IF Len(s.grp) < 4 THEN [s EXCEPT !.grp = Append(@, b - 33), !.emit = <<>>]
  ELSE LET v == A85Value(Append(s.grp, b - 33), 1, <<0, 0, 0, 0, 0>>)
       IN IF v[5] # 0 THEN [st |-> "err", grp |-> <<>>, emit |-> <<>>]
          ELSE [st |-> "run", grp |-> <<>>, emit |-> SubSeq(v, 1, 4)]
A85Finish(s) == [ok |-> s.st = "done", emit |-> <<>>]        \* EOD (~>) is mandatory in the reference encodings

(* =============================== RunLengthDecode =============================== *)
\* mode 0: everything as literal runs (of at most 128); mode 1: greedy - runs of 2..128 equal bytes as repeats
RECURSIVE RunAt(_, _)
RunAt(d, i) == IF i < Len(d) /\ d[i + 1] = d[i] THEN 1 + RunAt(d, i + 1) ELSE 1       \* equal bytes starting at i
RECURSIVE LitEnd(_, _)
LitEnd(d, i) == IF i > Len(d) \/ RunAt(d, i) >= 2 THEN i ELSE LitEnd(d, i + 1)         \* first index >= i that starts a repeat
RECURSIVE RlBody(_, _, _)
RlBody(d, i, mode) ==
  IF i > Len(d) THEN <<>>
  ELSE IF mode = 0 THEN LET n == Min2(128, Len(d) - i + 1) IN <<n - 1>> \o SubSeq(d, i, i + n - 1) \o RlBody(d, i + n, mode)
  ELSE LET r == Min2(128, RunAt(d, i)) IN
       IF r >= 2 THEN <<257 - r, d[i]>> \o RlBody(d, i + r, mode)
       ELSE LET e == Min2(LitEnd(d, i), i + 128) IN <<e - i - 1>> \o SubSeq(d, i, e - 1) \o RlBody(d, e, mode)
RlEnc(d, mode) == RlBody(d, 1, mode) \o <<128>>

RlInit == [st |-> "len", n |-> 0, emit |-> <<>>]
RlStep(s, b) ==
  IF s.st \in {"done", "err"} THEN [s EXCEPT !.emit = <<>>]
  ELSE IF s.st = "len" THEN
       IF b = 128 THEN [st |-> "done", n |-> 0, emit |-> <<>>]
       ELSE IF b < 128 THEN [st |-> "lit", n |-> b + 1, emit |-> <<>>]
       ELSE [st |-> "rep", n |-> 257 - b, emit |-> <<>>]
  ELSE IF s.st = "lit" THEN [st |-> IF s.n = 1 THEN "len" ELSE "lit", n |-> s.n - 1, emit |-> <<b>>]
  ELSE [st |-> "len", n |-> 0, emit |-> [j \in 1..s.n |-> b]]
RlFinish(s) == [ok |-> s.st \in {"done", "len"}, emit |-> <<>>]

(* ================================== LZWDecode ================================== *)
(* Codes 0..255 literals, 256 Clear, 257 EOD, 258.. table entries; code width 9..12 bits, packed high-order bit
   first.  The DECODER's table lags the encoder's by one entry, so with EarlyChange e the width w is left when
   (number of decoder entries, counting the 258 reserved ones) + e reaches 2^w.                            *)
\* table entry k (code 257 + k): [p |-> prefix code, b |-> last byte, f |-> first byte, n |-> length]
LzwFirst(tab, c) == IF c < 256 THEN c ELSE tab[c - 257].f
LzwLen(tab, c) == IF c < 256 THEN 1 ELSE tab[c - 257].n
RECURSIVE LzwString(_, _)
LzwString(tab, c) == IF c < 256 THEN <<c>> ELSE Append(LzwString(tab, tab[c - 257].p), tab[c - 257].b)

LzwInit(early) == [st |-> "run", early |-> early, buf |-> 0, nb |-> 0, w |-> 9, tab |-> <<>>, prev |-> 256, emit |-> <<>>]
\* one complete code
LzwCode(s, c) ==
  LET next == 258 + Len(s.tab) IN
  IF c = 257 THEN [s EXCEPT !.st = "done", !.emit = <<>>]
  ELSE IF c = 256 THEN [s EXCEPT !.tab = <<>>, !.w = 9, !.prev = 256, !.emit = <<>>]
  ELSE IF s.prev = 256 THEN                                     \* first code after Clear: must be a literal
       IF c < 256 THEN [s EXCEPT !.prev = c, !.emit = <<c>>] ELSE [s EXCEPT !.st = "err", !.emit = <<>>]
  ELSE IF c > next THEN [s EXCEPT !.st = "err", !.emit = <<>>]
  ELSE LET str == IF c < next THEN LzwString(s.tab, c) ELSE Append(LzwString(s.tab, s.prev), LzwFirst(s.tab, s.prev))
           full == next >= 4096
           ntab == IF full THEN s.tab ELSE Append(s.tab, [p |-> s.prev, b |-> str[1], f |-> LzwFirst(s.tab, s.prev), n |-> LzwLen(s.tab, s.prev) + 1])
           cnt == 258 + Len(ntab)
           nw == IF ~full /\ s.w < 12 /\ cnt + s.early >= Pow(2, s.w) THEN s.w + 1 ELSE s.w
       IN [s EXCEPT !.tab = ntab, !.w = nw, !.prev = c, !.emit = str]
LzwStep(s, b) ==
  IF s.st # "run" THEN [s EXCEPT !.emit = <<>>]
  ELSE LET buf == s.buf * 256 + b
           nb == s.nb + 8
       IN IF nb < s.w THEN [s EXCEPT !.buf = buf, !.nb = nb, !.emit = <<>>]
          ELSE LET sh == Pow(2, nb - s.w)
               IN LzwCode([s EXCEPT !.buf = buf % sh, !.nb = nb - s.w], buf \div sh)
LzwFinish(s) == [ok |-> s.st \in {"done", "run"}, emit |-> <<>>]       \* EOD is written by the reference encoders; its absence is tolerated

(* The reference encoder: greedy longest match; Clear first, EOD last; `clr` > 0 inserts a Clear after every
   clr-th code (a Clear is allowed anywhere); the table is reset well before it is full.  k counts the codes
   written since the last Clear: once the decoder has read code number k it holds 258 + (k - 1) entries, and
   that is what decides the width of code k + 1.                                                           *)
LzwFind(tab, p, b) == LET S == {j \in 1..Len(tab) : tab[j].p = p /\ tab[j].b = b} IN IF S = {} THEN 0 ELSE 257 + (CHOOSE j \in S : TRUE)
Bump(width, k, early) == IF width < 12 /\ 258 + (k - 1) + early >= Pow(2, width) THEN width + 1 ELSE width
RECURSIVE LzwCodes(_, _, _, _, _, _, _, _)
LzwCodes(d, i, w, tab, width, k, early, clr) ==          \* w: code of the current match, 256 = none yet
  IF i > Len(d) THEN IF w = 256 THEN <<<<257, width>>>> ELSE <<<<w, width>>, <<257, Bump(width, k + 1, early)>>>>
  ELSE IF w = 256 THEN LzwCodes(d, i + 1, d[i], tab, width, k, early, clr)
  ELSE LET c == LzwFind(tab, w, d[i]) IN
       IF c # 0 THEN LzwCodes(d, i + 1, c, tab, width, k, early, clr)
       ELSE LET ntab == Append(tab, [p |-> w, b |-> d[i]])
                nw == Bump(width, k + 1, early)
            IN <<<<w, width>>>> \o
               (IF (clr > 0 /\ k + 1 >= clr) \/ 258 + Len(ntab) >= 4093
                THEN <<<<256, nw>>>> \o LzwCodes(d, i, 256, <<>>, 9, 0, early, clr)
                ELSE LzwCodes(d, i + 1, d[i], ntab, nw, k + 1, early, clr))

\* pack <<code, width>> pairs high-order bit first; the last byte is padded with zero bits
RECURSIVE LzwPack(_, _, _, _)
LzwPack(codes, i, buf, nb) ==
  IF nb >= 8 THEN <<buf \div Pow(2, nb - 8)>> \o LzwPack(codes, i, buf % Pow(2, nb - 8), nb - 8)
  ELSE IF i > Len(codes) THEN IF nb = 0 THEN <<>> ELSE <<buf * Pow(2, 8 - nb)>>
  ELSE LzwPack(codes, i + 1, buf * Pow(2, codes[i][2]) + codes[i][1], nb + codes[i][2])
LzwEnc(d, early, clr) == LzwPack(<<<<256, 9>>>> \o LzwCodes(d, 1, 256, <<>>, 9, 0, early, clr), 1, 0, 0)

(* ================================= predictors ================================= *)
\* parameters with their defaults (7.4.4.3 Table 8)
Parm(p, k, dflt) == IF k \in DOMAIN p THEN p[k] ELSE dflt
PColors(p) == Parm(p, "Colors", 1)
PBpc(p) == Parm(p, "BitsPerComponent", 8)
PColumns(p) == Parm(p, "Columns", 1)
PPredictor(p) == Parm(p, "Predictor", 1)
RowBytes(p) == (PColumns(p) * PColors(p) * PBpc(p) + 7) \div 8
Bpp(p) == IF (PColors(p) * PBpc(p) + 7) \div 8 < 1 THEN 1 ELSE (PColors(p) * PBpc(p) + 7) \div 8

Dist(x, y) == IF x > y THEN x - y ELSE y - x
Paeth(a, b, c) == LET pa == Dist(b, c) pb == Dist(a, c) pc == Dist(a + b, 2 * c)
                  IN IF pa <= pb /\ pa <= pc THEN a ELSE IF pb <= pc THEN b ELSE c
PngPred(ft, a, b, c) == CASE ft = 0 -> 0 [] ft = 1 -> a [] ft = 2 -> b [] ft = 3 -> (a + b) \div 2 [] OTHER -> Paeth(a, b, c)

\* PNG: filter one row for encoding (row, prev: unfiltered rows) / reconstruct one row (raw: filtered bytes)
PngRow(ft, row, prev, bpp) ==
  [i \in 1..Len(row) |-> (row[i] + 256 - PngPred(ft, IF i > bpp THEN row[i - bpp] ELSE 0, prev[i], IF i > bpp THEN prev[i - bpp] ELSE 0)) % 256]
RECURSIVE PngUn(_, _, _, _, _, _)
PngUn(ft, raw, prev, bpp, i, out) ==
  IF i > Len(raw) THEN out
  ELSE PngUn(ft, raw, prev, bpp, i + 1,
             Append(out, (raw[i] + PngPred(ft, IF i > bpp THEN out[i - bpp] ELSE 0, prev[i], IF i > bpp THEN prev[i - bpp] ELSE 0)) % 256))
PngUnrow(ft, raw, prev, bpp) == PngUn(ft, raw, prev, bpp, 1, <<>>)

\* TIFF predictor 2: differences between horizontally adjacent samples of the same colour component
Unpack(row, bpc, n) ==
  IF bpc = 8 THEN [j \in 1..n |-> row[j]]
  ELSE IF bpc = 16 THEN [j \in 1..n |-> row[2 * j - 1] * 256 + row[2 * j]]
  ELSE [j \in 1..n |-> (row[(((j - 1) * bpc) \div 8) + 1] \div Pow(2, 8 - bpc - (((j - 1) * bpc) % 8))) % Pow(2, bpc)]
SumSeq(f, S) == LET RECURSIVE Go(_) Go(T) == IF T = {} THEN 0 ELSE LET x == CHOOSE x \in T : TRUE IN f[x] + Go(T \ {x}) IN Go(S)
Pack(s, bpc, nbytes) ==
  IF bpc = 8 THEN [k \in 1..nbytes |-> s[k]]
  ELSE IF bpc = 16 THEN [k \in 1..nbytes |-> IF k % 2 = 1 THEN s[(k + 1) \div 2] \div 256 ELSE s[k \div 2] % 256]
  ELSE LET per == 8 \div bpc IN
       [k \in 1..nbytes |->
          LET js == {j \in 1..Len(s) : ((j - 1) \div per) + 1 = k}
          IN SumSeq([j \in js |-> s[j] * Pow(2, 8 - bpc - (((j - 1) % per) * bpc))], js)]
TiffRow(row, p) ==        \* encode: differences
  LET n == PColumns(p) * PColors(p)  bpc == PBpc(p)  c == PColors(p)  m == Pow(2, bpc)
      s == Unpack(row, bpc, n)
  IN Pack([j \in 1..n |-> IF j > c THEN (s[j] + m - s[j - c]) % m ELSE s[j]], bpc, Len(row))
RECURSIVE TiffAcc(_, _, _, _, _)
TiffAcc(s, c, m, j, out) == IF j > Len(s) THEN out ELSE TiffAcc(s, c, m, j + 1, Append(out, IF j > c THEN (s[j] + out[j - c]) % m ELSE s[j]))
TiffUnrow(raw, p) ==      \* decode: running sums
  LET n == PColumns(p) * PColors(p)  bpc == PBpc(p)
  IN Pack(TiffAcc(Unpack(raw, bpc, n), PColors(p), Pow(2, bpc), 1, <<>>), bpc, Len(raw))

\* whole-buffer forms (short inputs).  fts: the PNG filter type of each row (the encoder's free choice)
Zeros(n) == [i \in 1..n |-> 0]
RECURSIVE PredEncRows(_, _, _, _, _)
PredEncRows(d, p, fts, r, prev) ==
  LET rb == RowBytes(p) IN
  IF (r - 1) * rb >= Len(d) THEN <<>>
  ELSE LET row == SubSeq(d, (r - 1) * rb + 1, r * rb) IN
       (IF PPredictor(p) = 2 THEN TiffRow(row, p)
        ELSE <<fts[((r - 1) % Len(fts)) + 1]>> \o PngRow(fts[((r - 1) % Len(fts)) + 1], row, prev, Bpp(p)))
       \o PredEncRows(d, p, fts, r + 1, row)
PredEnc(d, p, fts) == IF PPredictor(p) = 1 THEN d ELSE PredEncRows(d, p, fts, 1, Zeros(RowBytes(p)))

\* the predictor as a machine: buffers one row (plus its tag byte for PNG), emits the reconstructed row
PredInit(p) == [p |-> p, raw |-> <<>>, prev |-> Zeros(RowBytes(p)), st |-> "run", emit |-> <<>>]
PredStep(s, b) ==
  LET pr == PPredictor(s.p)  rb == RowBytes(s.p) IN
  IF s.st # "run" THEN [s EXCEPT !.emit = <<>>]
  ELSE IF pr = 1 THEN [s EXCEPT !.emit = <<b>>]
  ELSE LET raw == Append(s.raw, b)
           need == IF pr = 2 THEN rb ELSE rb + 1
       IN IF Len(raw) < need THEN [s EXCEPT !.raw = raw, !.emit = <<>>]
          ELSE IF pr = 2 THEN [s EXCEPT !.raw = <<>>, !.emit = TiffUnrow(raw, s.p)]
          ELSE IF raw[1] > 4 THEN [s EXCEPT !.st = "err", !.emit = <<>>]
          ELSE LET row == PngUnrow(raw[1], Tail(raw), s.prev, Bpp(s.p)) IN [s EXCEPT !.raw = <<>>, !.prev = row, !.emit = row]
PredFinish(s) == [ok |-> s.st = "run" /\ s.raw = <<>>, emit |-> <<>>]
RECURSIVE PredFeed(_, _, _, _)
PredFeed(s, bs, i, out) == IF i > Len(bs) THEN [s |-> s, out |-> out]
                           ELSE LET t == PredStep(s, bs[i]) IN PredFeed(t, bs, i + 1, out \o t.emit)

(* ============================ filters as one machine ============================ *)
\* f: [name |-> "ASCIIHexDecode" | "ASCII85Decode" | "RunLengthDecode" | "LZWDecode" | "Identity", parms |-> record]
\* ("Identity" stands for a FlateDecode stage whose inflate was done by the zlib primitive)
MInit(f) == [name |-> f.name,
             m |-> CASE f.name = "ASCIIHexDecode" -> HexInit [] f.name = "ASCII85Decode" -> A85Init
                     [] f.name = "RunLengthDecode" -> RlInit [] f.name = "LZWDecode" -> LzwInit(Parm(f.parms, "EarlyChange", 1))
                     [] OTHER -> [st |-> "run", emit |-> <<>>],
             pred |-> PredInit(IF f.name \in {"LZWDecode", "Identity"} THEN f.parms ELSE [Predictor |-> 1]),
             emit |-> <<>>]
MStep(s, b) ==
  LET m2 == CASE s.name = "ASCIIHexDecode" -> HexStep(s.m, b) [] s.name = "ASCII85Decode" -> A85Step(s.m, b)
              [] s.name = "RunLengthDecode" -> RlStep(s.m, b) [] s.name = "LZWDecode" -> LzwStep(s.m, b)
              [] OTHER -> [st |-> "run", emit |-> <<b>>]
      fed == PredFeed(s.pred, m2.emit, 1, <<>>)
  IN [s EXCEPT !.m = m2, !.pred = fed.s, !.emit = fed.out]
MOk(s) ==
  /\ s.pred.st = "run" /\ s.pred.raw = <<>>
  /\ CASE s.name = "ASCIIHexDecode" -> HexFinish(s.m).ok [] s.name = "ASCII85Decode" -> A85Finish(s.m).ok
       [] s.name = "RunLengthDecode" -> RlFinish(s.m).ok [] s.name = "LZWDecode" -> LzwFinish(s.m).ok [] OTHER -> TRUE
\* bytes the filter itself still owes at end of data (ASCIIHex without EOD and a pending digit)
MTail(s) == IF s.name = "ASCIIHexDecode" THEN HexFinish(s.m).emit ELSE <<>>

\* fold over a short input: [ok, out]
RECURSIVE MRun(_, _, _, _)
MRun(s, bs, i, out) ==
  IF i > Len(bs) THEN [ok |-> MOk(s), out |-> out \o MTail(s)]
  ELSE LET t == MStep(s, bs[i]) IN MRun(t, bs, i + 1, out \o t.emit)
DecodeOne(f, bs) == MRun(MInit(f), bs, 1, <<>>)

\* reference encoding of d under filter f with variation v
EncodeOne(f, d, v) ==
  LET pd == IF f.name \in {"LZWDecode", "Identity"} THEN PredEnc(d, f.parms, v.fts) ELSE d IN
  CASE f.name = "ASCIIHexDecode" -> HexEnc(pd, v.lower, v.ws, v.trim)
    [] f.name = "ASCII85Decode" -> A85Enc(pd, v.ws)
    [] f.name = "RunLengthDecode" -> RlEnc(pd, v.mode)
    [] f.name = "LZWDecode" -> LzwEnc(pd, Parm(f.parms, "EarlyChange", 1), v.clr)
    [] OTHER -> pd
=============================================================================
