---------------------------- MODULE BoundedDecode ----------------------------
(* The contract of decoding under a caller-supplied output limit (C08), as a trace acceptor.

     case      a stream (filters, encoded bytes), whether it is WELL-FORMED (it came out of a reference encoder),
               and what unbounded decoding did: flen = length of its result, -1 if it failed; fullpanic
     bounded   one call decode_with_limit(L): r in {ok, err, panic}, rlen, eq (result equals the unbounded one)

   Clauses:  (1) never a panic, from either entry point;
             (2) r = ok  =>  rlen <= L;
             (3) well-formed and every stage of the reference decoding (each filter's output and the input of
                 a predictor) fits in L  =>  r = ok and the result equals the unbounded result;
             (4) the unbounded result never exceeds the documented ceiling of 256 MiB.
   Clause (3) reads "decodes fully within the limit" as: all intermediate results fit, which is the weakest
   demand the statement supports (a decoder may bound every buffer it allocates by L).                      *)
EXTENDS Filters, Prim, TraceLib

Ceiling == 268435456

VARIABLES l, cur, need
bvars == <<l, cur, need>>
IsEvent(e) == l <= NRec /\ Rec[l].ev = e /\ l' = l + 1
Has(c, k) == k \in DOMAIN c
Max2(a, b) == IF a > b THEN a ELSE b

\* largest intermediate size of the reference decoding of a short well-formed case
StageOut(f, bs) ==
  IF f.name = "FlateDecode"
  THEN LET z == InflateR(bs) IN [ok |-> z.ok, mid |-> Len(z.out), r |-> IF z.ok THEN DecodeOne([name |-> "Identity", parms |-> f.parms], z.out) ELSE [ok |-> FALSE, out |-> <<>>]]
  ELSE IF f.name = "LZWDecode"
  THEN LET m == DecodeOne([name |-> "LZWDecode", parms |-> [Predictor |-> 1, EarlyChange |-> Parm(f.parms, "EarlyChange", 1)]], bs)
       IN [ok |-> m.ok, mid |-> Len(m.out), r |-> DecodeOne(f, bs)]
  ELSE LET r == DecodeOne(f, bs) IN [ok |-> r.ok, mid |-> Len(r.out), r |-> r]
RECURSIVE Need(_, _, _)
Need(fs, bs, acc) ==
  IF fs = <<>> THEN acc
  ELSE LET s == StageOut(fs[1], bs) IN
       IF ~s.ok \/ ~s.r.ok THEN 0 - 1
       ELSE Need(Tail(fs), s.r.out, Max2(acc, Max2(s.mid, Len(s.r.out))))
NeedOf(c) ==
  IF ~c.wellformed THEN 0 - 1
  ELSE IF c.kind = "long" THEN Max2(c.flen, IF Has(c, "mid") THEN Len(c.mid) ELSE 0)
  ELSE Need(c.filters, c.enc, 0)

BInit == l = 1 /\ cur = 0 /\ need = 0 - 1
BCase == /\ IsEvent("case")
         /\ ~Rec[l].fullpanic                                   \* (1)
         /\ Rec[l].flen <= Ceiling                              \* (4)
         /\ cur' = l /\ need' = NeedOf(Rec[l])
BBounded == /\ IsEvent("bounded")
            /\ LET e == Rec[l] c == Rec[cur] IN
               /\ e.r \in {"ok", "err"}                         \* (1)
               /\ (e.r = "ok" => e.rlen <= e.L)                 \* (2)
               /\ (c.wellformed /\ c.flen >= 0 /\ need >= 0 /\ need <= e.L) => (e.r = "ok" /\ e.eq)      \* (3)
            /\ UNCHANGED <<cur, need>>
BNext == BCase \/ BBounded
TraceSpec == BInit /\ [][BNext]_bvars
Prog == Progress(l)
=============================================================================
