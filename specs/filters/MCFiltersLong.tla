---------------------------- MODULE MCFiltersLong ----------------------------
(* Long LZW vectors for the reference ENCODER: the driver supplies byte strings long enough to take the code
   width through 9 -> 10 -> 11 -> 12 bits, fill the table and force a Clear ($VECTORS, one JSON object per
   line: data, early, clr); the encoder's output is printed for replay on the library (and is decoded again by
   the reference decoder machine in FiltersTrace, which also compares with the data).                       *)
EXTENDS Filters, TLC, Json, IOUtils

Vec == ndJsonDeserialize(IOEnv.VECTORS)

VARIABLE i
Init == i = 1
Next == /\ i <= Len(Vec)
        /\ LET v == Vec[i]
               \* `bare`: no /EarlyChange entry (the default, 1, applies) - the stream then carries no DecodeParms at all
               f == IF "bare" \in DOMAIN v /\ v.bare /\ v.early = 1 THEN [name |-> "LZWDecode", parms |-> [Predictor |-> 1]]
                    ELSE [name |-> "LZWDecode", parms |-> [Predictor |-> 1, EarlyChange |-> v.early]]
           IN PrintT(<<"REPLAY", ToJson([filters |-> <<f>>, enc |-> LzwEnc(v.data, v.early, v.clr), data |-> v.data, kind |-> "long"])>>)
        /\ i' = i + 1
Spec == Init /\ [][Next]_i
=============================================================================
