SPECIFICATION Spec
CHECK_DEADLOCK FALSE
CONSTANTS
  MaxLen = 4
  ChainLen = 3
  PredRows = {1, 2, 3}
