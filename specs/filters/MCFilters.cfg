SPECIFICATION Spec
CHECK_DEADLOCK FALSE
CONSTANTS
  MaxLen = 3
  ChainLen = 2
  PredRows = {1, 3}
