------------------------------- MODULE Chunker -------------------------------
(* C14 - RAG chunking is a faithful, budget-respecting partition.

   This is the CONTRACT of a chunker, not an algorithm: a sequence of emitted chunks is acceptable iff a
   cursor over the input advances by whole elements, or by consecutive fragments of the current splittable
   element, so that nothing is skipped, repeated or reordered; a chunk not flagged oversized fits the budget
   as measured by the caller's counter on the text actually emitted; and the chunk's heading is the heading
   of the section its content belongs to.  Any chunking policy (greedy, section-aware, ...) that satisfies
   this is accepted.

   Text is compared by its non-white-space characters (`nows`): the chunkers may re-flow white space.

   input[i] = [kind, nows, heading: [has, text]]
   chunk    = [elems: seq of [kind, nows], heading: [has, text], oversized, measured]               *)
EXTENDS Naturals, Sequences

VARIABLES input,            \* the elements handed to the chunker
          cur, off,         \* next input element; characters of it already emitted as fragments
          MaxTokens,        \* budget (configuration, fixed per run)
          Propagate,        \* propagate_headings option (configuration, fixed per run)
          Graph             \* TRUE for the section-graph entry point

Splittable(e) == e.kind \in {"paragraph", "list_item"}

Same(c, e) == c.kind = e.kind /\ c.nows = e.nows

\* headings a chunk may carry for content that starts with element e
HeadingOK(h, e) ==
  IF h.has
  THEN \/ (e.heading.has /\ h.text = e.heading.text)
       \/ (e.kind = "title" /\ ~e.heading.has /\ h.text = e.text)     \* a title opens its own section
  ELSE ~Propagate \/ ~e.heading.has

(* With heading propagation switched off the sequential chunker attaches no heading context to any chunk (that is
   what the option means); the section-graph chunker may still name the title that opens the chunk's section.
   `titles` = texts of the title elements up to and including the current one.                               *)
PropagationOffOK(h, graph, titles) == Propagate \/ ~h.has \/ (graph /\ h.text \in titles)

(* Deliberately NOT demanded: that all elements of a chunk carry the same heading.  The statement only says
   the chunk carries the heading of the section it belongs to; when a caller supplies adjacent non-title
   elements with different (stale) headings, "the section" of a merged chunk is the one it starts in.     *)

EmitWhole(c) ==
  /\ off = 0
  /\ Len(c.elems) >= 1
  /\ cur + Len(c.elems) - 1 <= Len(input)
  /\ \A i \in 1..Len(c.elems) : Same(c.elems[i], input[cur + i - 1])
  /\ cur' = cur + Len(c.elems) /\ off' = 0

EmitFragment(c) ==
  /\ cur <= Len(input)
  /\ Splittable(input[cur])
  /\ Len(c.elems) = 1
  /\ LET body == input[cur].nows
         part == c.elems[1].nows
     IN /\ Len(part) > 0
        /\ off + Len(part) <= Len(body)
        /\ SubSeq(body, off + 1, off + Len(part)) = part
        /\ IF off + Len(part) = Len(body) THEN cur' = cur + 1 /\ off' = 0
                                          ELSE cur' = cur /\ off' = off + Len(part)

Budget(c) == ~c.oversized => c.measured <= MaxTokens

Emit(c) == /\ cur <= Len(input)
           /\ EmitWhole(c) \/ EmitFragment(c)
           /\ Budget(c)
           /\ HeadingOK(c.heading, input[cur])
           /\ PropagationOffOK(c.heading, Graph, {input[i].text : i \in {j \in 1..cur : input[j].kind = "title"}})
           /\ UNCHANGED <<input, MaxTokens, Propagate, Graph>>

\* nothing may be left over
Complete == cur = Len(input) + 1 /\ off = 0
=============================================================================
