SPECIFICATION Spec
CHECK_DEADLOCK FALSE
CONSTANTS
  NCases = 400
  Stride = 1
