----------------------------- MODULE MCDocFlow -----------------------------
(* B1 generator for C15: multi-page documents (heading levels, paragraphs of 1-3 lines, list items, one table per page
   at most, page breaks inside sections, documents that start without a heading) x chunking configurations.  TLC also
   checks the model itself: the ideal chunking (one chunk per block) is sound for every generated document.   *)
EXTENDS DocFlow, Json

CONSTANTS NCases, Stride

Kinds == <<"p", "p", "h2", "li", "p", "h1", "tb", "h3", "p", "li", "h2", "p">>
KindAt(k, p, j) == Kinds[((k * 7 + p * 13 + j * 5 + (k \div 3) + (j * j) + (k \div 12) * j + (k \div 60) * p) % Len(Kinds)) + 1]
NPages(k) == (k % 3) + 1
NBlocks(k, p) == 3 + ((k + 2 * p) % 5)
\* at most one table per page: later ones become paragraphs
PageOf(k, p, base) ==
  LET raw == [j \in 1..NBlocks(k, p) |-> KindAt(k, p, j)]
      firstTb == IF \E j \in 1..Len(raw) : raw[j] = "tb" THEN CHOOSE j \in 1..Len(raw) : raw[j] = "tb" /\ \A i \in 1..(j - 1) : raw[i] # "tb" ELSE 0
      \* two headings of one level with nothing between them read as one two-line heading: the second becomes a paragraph
      kindAt(j) == IF raw[j] = "tb" /\ j # firstTb THEN "p" ELSE IF j > 1 /\ IsHeading(raw[j]) /\ raw[j - 1] = raw[j] THEN "p" ELSE raw[j]
  IN [j \in 1..Len(raw) |-> [kind |-> kindAt(j), id |-> base + j, lines |-> ((k + j) % 3) + 1]]
\* every fourth document has a page without any text in the middle (a blank sheet, a figure)
DocOf(k) == LET ps == [p \in 1..NPages(k) |-> PageOf(k, p, 20 * p)] IN
            [pages |-> IF k % 4 = 3 /\ Len(ps) >= 2 THEN <<ps[1], <<>>>> \o SubSeq(ps, 2, Len(ps)) ELSE ps]
Cfgs == << [maxTokens |-> 512, mergeAdjacent |-> TRUE, propagate |-> TRUE, context |-> "heading"], [maxTokens |-> 12, mergeAdjacent |-> FALSE, propagate |-> TRUE, context |-> "contextual"],
           [maxTokens |-> 40, mergeAdjacent |-> TRUE, propagate |-> FALSE, context |-> "none"], [maxTokens |-> 512, mergeAdjacent |-> FALSE, propagate |-> TRUE, context |-> "none"],
           [maxTokens |-> 25, mergeAdjacent |-> TRUE, propagate |-> TRUE, context |-> "contextual"] >>
SortedMarkers(b) == IF b.kind = "tb" THEN <<"T" \o ToString(b.id) \o "A", "T" \o ToString(b.id) \o "B", "T" \o ToString(b.id) \o "C", "T" \o ToString(b.id) \o "D">>
                    ELSE IF b.kind = "p" THEN SubSeq(<<"P" \o ToString(b.id) \o "X", "P" \o ToString(b.id) \o "B", "P" \o ToString(b.id) \o "C">>, 1, b.lines)
                    ELSE <<Letter(b.kind) \o ToString(b.id) \o "X">>
Ideal(bs) == [i \in 1..Len(bs) |-> [markers |-> SortedMarkers(bs[i]), occurrences |-> [x \in 1..Cardinality(MarkersOf(bs[i])) |-> 1], pages |-> <<bs[i].page>>, path |-> Governing(bs, i), id |-> i]]
VARIABLE done
Init == done = FALSE
Next == /\ ~done
        /\ \A j \in 0..(NCases - 1) : LET k == j * Stride  d == DocOf(k) IN
             /\ Assert(Problems(Blocks(d), Ideal(Blocks(d))) = {}, <<"the ideal chunking is not sound", k>>)
             /\ PrintT(<<"REPLAY", ToJson([pages |-> d.pages, cfg |-> Cfgs[(j % Len(Cfgs)) + 1], k |-> k])>>)
        /\ done' = TRUE
Spec == Init /\ [][Next]_done
=============================================================================
