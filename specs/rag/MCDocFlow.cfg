SPECIFICATION Spec
CHECK_DEADLOCK FALSE
CONSTANTS
  NCases = 40
  Stride = 7
