---------------------------- MODULE DocFlowTrace ----------------------------
(* B2 for C15: the chunks the pipeline made of an authored document, against DocFlow.

     doc   the abstract document, the configuration, and per chunk: the markers found in its text (with how often),
           its page numbers, its heading path (as heading markers), its identifier; whether a second chunking of the
           same file serializes identically and whether a re-authored copy gets the same identifiers           *)
EXTENDS DocFlow, TraceLib, Json

VARIABLE l
IsEvent(e) == l <= NRec /\ Rec[l].ev = e /\ l' = l + 1
DocProblems(e) ==
  IF ~e.ok THEN {[problem |-> "the pipeline failed: " \o e.err]}
  ELSE Problems(Blocks(e), e.chunks)
       \cup (IF e.again THEN {} ELSE {[problem |-> "a second run over the same file gives different chunks"]})
       \cup (IF e.sameIdsReauthored THEN {} ELSE {[problem |-> "chunk identifiers change when the same document is written again"]})
TDoc == /\ IsEvent("doc")
        /\ LET p == DocProblems(Rec[l]) IN IF p = {} THEN TRUE ELSE PrintT(<<"PROBLEMS", ToJson([idx |-> l, problems |-> p])>>) /\ FALSE
\* KNOWN (C15-spurious-spatial-table): the spatial table detector takes an indented list between headings (two left
\* edges, several baselines) for a two-column table; the "table" element repeats text that is also emitted as titles and
\* list items.  Only such chunks - of type table, holding no cell of an authored table - are set aside.
\* KNOWN (C15-line-after-table-lost): a text line directly below a ruled table is merged with the table's last row by
\* paragraph reconstruction, claimed for the table and then missing from the table's cells: the block is in no chunk.
\* Only "block lost" for the block that directly follows a table on its page is excused.
\* Everything else must be sound.
TableMarkers(bs) == UNION {MarkersOf(bs[i]) : i \in {j \in 1..Len(bs) : bs[j].kind = "tb"}}
Spurious(bs, c) == c.types = <<"table">> /\ SetOf(c.markers) \cap TableMarkers(bs) = {}
AfterTable(bs, b) == \E i \in 2..Len(bs) : bs[i] = b /\ bs[i - 1].kind = "tb" /\ bs[i - 1].page = b.page
BlockOfMarker(bs, m) == bs[CHOOSE i \in 1..Len(bs) : m \in MarkersOf(bs[i])]
LostAfterTable(bs, p) == "marker" \in DOMAIN p /\ p.problem = "content lost: marker in no chunk" /\ AfterTable(bs, BlockOfMarker(bs, p.marker))
TDocKnown == /\ IsEvent("doc") /\ Rec[l].ok
             /\ LET bs == Blocks(Rec[l])
                    sp == KnownOpen("KF_C15_SPURIOUS_TABLE")  la == KnownOpen("KF_C15_LINE_AFTER_TABLE")
                    keep == IF sp THEN SelectSeq(Rec[l].chunks, LAMBDA c : ~Spurious(bs, c)) ELSE Rec[l].chunks
                    left == DocProblems([Rec[l] EXCEPT !.chunks = keep])
                    usedSp == Len(keep) < Len(Rec[l].chunks)
                    usedLa == la /\ left # {}
                IN /\ usedSp \/ usedLa
                   /\ (left = {} \/ (la /\ \A p \in left : LostAfterTable(bs, p)))
                   /\ (usedSp => NoteKnown("KF_C15_SPURIOUS_TABLE", l))
                   /\ (usedLa => NoteKnown("KF_C15_LINE_AFTER_TABLE", l))
TInit == l = 1
TNext == TDoc \/ TDocKnown
TraceSpec == TInit /\ [][TNext]_l
Prog == Progress(l)
=============================================================================
