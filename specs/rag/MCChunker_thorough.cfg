CONSTANTS
  MaxLen = 3
  MaxTokens = 3
  Kinds = {"title", "paragraph", "list_item", "key_value", "table"}
  Weights = {1, 5}
  Headings = {0, 1, 2}
  NonAdditive = TRUE
SPECIFICATION MSpec
INVARIANTS ExactlyOnce Ordered EmitInput
CHECK_DEADLOCK TRUE
