---------------------------- MODULE ChunkerTrace ----------------------------
(* B2 for C14: the chunks returned by HybridChunker::chunk / chunk_with_graph for a recorded input must be
   an emission sequence the Chunker contract accepts.  MaxTokens / Propagate come from the case header. *)
EXTENDS Chunker, TraceLib

VARIABLES l
tvars == <<l, input, cur, off, MaxTokens, Propagate, Graph>>

IsEvent(e) == l <= NRec /\ Rec[l].ev = e /\ l' = l + 1
E == Rec[l]

TInit == l = 1 /\ input = <<>> /\ cur = 1 /\ off = 0 /\ MaxTokens = 0 /\ Propagate = FALSE /\ Graph = FALSE

TReset == /\ IsEvent("reset")
          /\ input' = E.input /\ cur' = 1 /\ off' = 0 /\ MaxTokens' = E.maxTokens /\ Propagate' = E.propagate /\ Graph' = (E.entry = "graph")

TEmit == /\ IsEvent("emit")
         /\ Emit(E.chunk)

\* the chunker returned: everything must have been emitted
TEnd == /\ IsEvent("end")
        /\ Complete
        /\ UNCHANGED <<input, cur, off, MaxTokens, Propagate, Graph>>

\* a second run on the same input gave the same chunks
TDeterministic == /\ IsEvent("deterministic")
                  /\ E.same
                  /\ UNCHANGED <<input, cur, off, MaxTokens, Propagate, Graph>>

TNext == TReset \/ TEmit \/ TEnd \/ TDeterministic
TraceSpec == TInit /\ [][TNext]_tvars
Prog == Progress(l)
=============================================================================
