------------------------------ MODULE DocFlow ------------------------------
(* C15: a document as its author sees it - pages of blocks: headings of three levels, paragraphs, list items, tables -
   and what the chunks made from it owe the author.

     block   [kind, id, page]     kind: h1 h2 h3 (headings, told apart by font size) | p | li | tb
             every block carries a marker built from its id (H7X, P8X, L9X; a table T10A..T10D, one per cell)

   Governing(b): the heading structure above block b - the stack of headings that a reader keeps while reading the
   document from the first page to the last: a heading closes every open heading of its own or a deeper level and
   opens itself.  Page breaks do not touch the stack.

   A set of chunks is SOUND for the document when every block's markers occur in exactly one chunk, once; a chunk's
   pages are exactly the pages of the blocks it holds; its heading path is the governing structure of every block
   it holds; chunk identifiers are pairwise distinct.                                                          *)
EXTENDS Naturals, Sequences, FiniteSets, TLC

IsHeading(k) == k \in {"h1", "h2", "h3"}
Level(k) == CASE k = "h1" -> 1 [] k = "h2" -> 2 [] OTHER -> 3
Letter(k) == CASE IsHeading(k) -> "H" [] k = "p" -> "P" [] k = "li" -> "L" [] OTHER -> "T"
\* a paragraph of several lines carries one marker per line (X, then B, C): a small budget may split it between chunks
MarkersOf(b) == IF b.kind = "tb" THEN {"T" \o ToString(b.id) \o s : s \in {"A", "B", "C", "D"}}
                ELSE IF b.kind = "p" THEN {"P" \o ToString(b.id) \o s : s \in (IF b.lines >= 3 THEN {"X", "B", "C"} ELSE IF b.lines = 2 THEN {"X", "B"} ELSE {"X"})}
                ELSE {Letter(b.kind) \o ToString(b.id) \o "X"}
HeadMarker(b) == "H" \o ToString(b.id) \o "X"

\* the blocks of a document in reading order, with their 0-based page
RECURSIVE FlatPages(_, _)
FlatPages(pages, p) == IF p > Len(pages) THEN <<>>
                       ELSE [j \in 1..Len(pages[p]) |-> [kind |-> pages[p][j].kind, id |-> pages[p][j].id, lines |-> pages[p][j].lines, page |-> p - 1]] \o FlatPages(pages, p + 1)
Blocks(doc) == FlatPages(doc.pages, 1)

Push(stack, b) == SelectSeq(stack, LAMBDA h : Level(h.kind) < Level(b.kind)) \o <<b>>
RECURSIVE StackAfter(_, _)
StackAfter(bs, i) == IF i = 0 THEN <<>> ELSE LET s == StackAfter(bs, i - 1) IN IF IsHeading(bs[i].kind) THEN Push(s, bs[i]) ELSE s
Governing(bs, i) == LET s == StackAfter(bs, i) IN [x \in 1..Len(s) |-> HeadMarker(s[x])]

SetOf(s) == {s[x] : x \in 1..Len(s)}
RECURSIVE SortNat(_)
SortNat(S) == IF S = {} THEN <<>> ELSE LET m == CHOOSE x \in S : \A y \in S : x <= y IN <<m>> \o SortNat(S \ {m})
\* chunk: [markers (seq of strings), occurrences (seq of nat), pages (seq), path (seq of heading markers), id]
Holds(c, b) == MarkersOf(b) \subseteq SetOf(c.markers)
Touches(c, b) == MarkersOf(b) \cap SetOf(c.markers) # {}
AllMarkers(bs) == UNION {MarkersOf(bs[i]) : i \in 1..Len(bs)}
Problems(bs, chunks) ==
  {[problem |-> "content lost: marker in no chunk", marker |-> m] : m \in {k \in AllMarkers(bs) : \A x \in 1..Len(chunks) : k \notin SetOf(chunks[x].markers)}}
  \cup {[problem |-> "content in more than one chunk", marker |-> m] : m \in {k \in AllMarkers(bs) : Cardinality({x \in 1..Len(chunks) : k \in SetOf(chunks[x].markers)}) > 1}}
  \cup {[problem |-> "a table's cells are spread over chunks", block |-> bs[i]] : i \in {j \in 1..Len(bs) : bs[j].kind = "tb" /\ \E x \in 1..Len(chunks) : Touches(chunks[x], bs[j]) /\ ~Holds(chunks[x], bs[j])}}
  \cup {[problem |-> "text repeated inside a chunk", chunk |-> x] : x \in {y \in 1..Len(chunks) : \E k \in 1..Len(chunks[y].occurrences) : chunks[y].occurrences[k] # 1}}
  \cup {[problem |-> "page numbers are not the pages of the content", chunk |-> x, pages |-> chunks[x].pages] :
          x \in {y \in 1..Len(chunks) : chunks[y].markers # <<>> /\ chunks[y].pages # SortNat({bs[i].page : i \in {j \in 1..Len(bs) : Touches(chunks[y], bs[j])}})}}
  \cup UNION {{[problem |-> "heading path is not the structure that governs the content", chunk |-> x, path |-> chunks[x].path, block |-> bs[i]] :
                  i \in {j \in 1..Len(bs) : Touches(chunks[x], bs[j]) /\ chunks[x].path # Governing(bs, j)}} : x \in 1..Len(chunks)}
  \cup {[problem |-> "two chunks share an identifier", chunk |-> x] : x \in {y \in 1..Len(chunks) : \E z \in 1..Len(chunks) : z # y /\ chunks[z].id = chunks[y].id}}
=============================================================================
