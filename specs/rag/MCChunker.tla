------------------------------ MODULE MCChunker ------------------------------
(* Design-level sanity of the Chunker contract and B1 input generation for C14.

   Abstract inputs: each element is [kind, w, h] with w its size in tokens and h a heading id (0 = none).
   An abstract chunker may emit ANY chunk the contract allows (whole runs of same-section elements, or
   fragments of a splittable element), flagging oversized exactly when the measured size exceeds the budget.
   Checked: from every reachable state the contract can be completed (it is implementable for every input),
   and a completed emission has covered every token of every element exactly once, in order.
   Every input TLC enumerates is also printed for replay on the real chunkers.                          *)
EXTENDS Naturals, Sequences, TLC, Json

CONSTANTS MaxLen, MaxTokens, Kinds, Weights, Headings, NonAdditive

VARIABLES input, cur, off, covered, phase
mvars == <<input, cur, off, covered, phase>>

Elem == [kind : Kinds, w : Weights, h : Headings]
Splittable(e) == e.kind \in {"paragraph", "list_item"}

RECURSIVE Seqs(_)
Seqs(n) == IF n = 0 THEN {<<>>} ELSE LET S == Seqs(n - 1) IN S \cup {Append(s, e) : s \in {t \in S : Len(t) = n - 1}, e \in Elem}

MInit == /\ input \in (Seqs(MaxLen) \ {<<>>})
         /\ cur = 1 /\ off = 0 /\ covered = [i \in 1..MaxLen |-> 0] /\ phase = "chunking"

\* measured size of k whole elements starting at cur: the counter is additive, or charges the joins
Measured(k) == LET F[i \in 0..k] == IF i = 0 THEN 0 ELSE F[i - 1] + input[cur + i - 1].w
               IN F[k] + (IF NonAdditive THEN k - 1 ELSE 0)

EmitWhole(k) == /\ phase = "chunking" /\ off = 0 /\ k >= 1 /\ cur + k - 1 <= Len(input)
                /\ \A i \in 1..k : input[cur + i - 1].h = input[cur].h
                /\ (k > 1 => Measured(k) <= MaxTokens)          \* nobody merges into an oversized chunk
                /\ covered' = [i \in 1..MaxLen |-> IF i >= cur /\ i < cur + k THEN covered[i] + input[i].w ELSE covered[i]]
                /\ cur' = cur + k /\ off' = 0
                /\ UNCHANGED <<input, phase>>

EmitFragment(f) == /\ phase = "chunking" /\ cur <= Len(input) /\ Splittable(input[cur])
                   /\ f >= 1 /\ off + f <= input[cur].w
                   /\ input[cur].w > MaxTokens                    \* only oversized elements are split
                   /\ covered' = [covered EXCEPT ![cur] = @ + f]
                   /\ IF off + f = input[cur].w THEN cur' = cur + 1 /\ off' = 0
                                                ELSE cur' = cur /\ off' = off + f
                   /\ UNCHANGED <<input, phase>>

Finish == /\ phase = "chunking" /\ cur = Len(input) + 1 /\ off = 0
          /\ phase' = "done" /\ UNCHANGED <<input, cur, off, covered>>

MNext == \/ \E k \in 1..MaxLen : EmitWhole(k)
         \/ \E f \in 1..5 : EmitFragment(f)
         \/ Finish
         \/ (phase = "done" /\ UNCHANGED mvars)

MSpec == MInit /\ [][MNext]_mvars

\* a finished emission covered every token of every element exactly once
ExactlyOnce == phase = "done" => \A i \in 1..Len(input) : covered[i] = input[i].w
\* the cursor never runs past what has been covered
Ordered == \A i \in 1..Len(input) : (i < cur => covered[i] = input[i].w) /\ (i > cur => covered[i] = 0)

View == <<input, cur, off, phase>>
EmitInput == (cur = 1 /\ off = 0 /\ phase = "chunking") =>
               PrintT(<<"REPLAY", ToJson([input |-> input])>>)
=============================================================================
