---------------------------- MODULE XRefChainTrace ----------------------------
(* B2 for C04: histories chosen by the harness (more objects and revisions than the exhaustive scope),
   written by synth, and what the real reader returned for every object.

   rev   : one appended revision (form, ops)             -> AppendRevision with exactly these values
   open  : the reader opened the file                    -> Open; the ParseSection steps are not logged
                                                            (silent steps of the trace specification)
   read  : get_object(n, g) returned a marker / null     -> must be Resolve(n), generation must be current *)
EXTENDS XRefChain, TraceLib

VARIABLE l
tvars == <<vars, l>>

IsEvent(e) == l <= NRec /\ Rec[l].ev = e /\ l' = l + 1
E == Rec[l]

TInit == Init /\ l = 1

TReset == /\ IsEvent("reset")
          /\ revs' = <<>> /\ phase' = "writing" /\ sec' = 0
          /\ merged' = [n \in Obj |-> Absent] /\ ent' = [n \in Obj |-> Absent] /\ ext' = [n \in Obj |-> Absent]

OpsOf(e) == [n \in Obj |-> IF n <= Len(e.ops) THEN e.ops[n] ELSE "keep"]

TRev == /\ IsEvent("rev")
        /\ phase = "writing"
        /\ WellFormedRev([form |-> E.form, ops |-> OpsOf(E)])
        /\ revs' = Append(revs, [form |-> E.form, ops |-> OpsOf(E)])
        /\ UNCHANGED <<phase, sec, merged, ent, ext>>

TOpen == IsEvent("open") /\ Open

TParse == ParseSection /\ UNCHANGED l          \* silent

TRead == /\ IsEvent("read")
         /\ phase = "done"
         /\ E.g = Gen(E.n, Len(revs))
         /\ E.value = Resolve(E.n)
         /\ Resolve(E.n) = Latest(E.n)
         /\ UNCHANGED vars

TNext == TReset \/ TRev \/ TOpen \/ TParse \/ TRead
TraceSpec == TInit /\ [][TNext]_tvars
Prog == Progress(l)
=============================================================================
