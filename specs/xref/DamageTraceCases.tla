-------------------------- MODULE DamageTraceCases --------------------------
(* DamageTrace with one case per damaged variant: the base record is repeated in front of each variant (so that a
   rejected variant can be isolated); a repeated base (skip = TRUE) only re-establishes which record is the base. *)
EXTENDS DamageTrace
TBaseAgain == /\ l <= NRec /\ Rec[l].ev = "base" /\ "skip" \in DOMAIN Rec[l]
              /\ base' = l /\ l' = l + 1 /\ UNCHANGED allvars
TBaseFirst == l <= NRec /\ "skip" \notin DOMAIN Rec[l] /\ TBase
CNext == TBaseFirst \/ TBaseAgain \/ TScan \/ TChkBase \/ TDamaged \/ TDamagedKnown \/ TDamagedKnownDecoy
CSpec == TInit /\ [][CNext]_tvars
=============================================================================
