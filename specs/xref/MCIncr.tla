------------------------------- MODULE MCIncr -------------------------------
(* Design check of IncrUpdate (a refused edit changes nothing; an accepted fill changes exactly the named field) and
   B1 generation of edit HISTORIES: bases written with a classic table, a cross-reference stream, or object streams;
   1..MaxEdits edits per history over fills (single and several at once), note additions, updates and removals,
   with values that are encodable, refusable, empty, or carry delimiters.                                      *)
EXTENDS IncrUpdate, TLC, Json

CONSTANTS MaxEdits, Stride

\* the last two fit in one byte per character but mean something else in PDFDocEncoding than in Latin-1 (U+00A0, U+00AD, U+0080)
Vals == << <<72, 105>>, <<40, 97, 41, 92>>, <<233, 8364>>, <<20013>>, <<>>, <<65, 10, 66>>, <<32, 32>>, <<49, 48, 160, 107, 103>>, <<173, 128, 255>> >>
F(has, v) == [has |-> has, v |-> v]
\* `tail`: what follows %%EOF in the base - the line feed the library writes, CR LF, nothing, a blank line, blanks
Bases == << [cfg |-> "classic", tail |-> "crlf", fields |-> <<F(TRUE, <<97>>), F(FALSE, <<>>), F(TRUE, <<233>>)>>],
            [cfg |-> "xrefstream", tail |-> "lf", fields |-> <<F(FALSE, <<>>), F(TRUE, <<98>>), F(FALSE, <<>>)>>],
            [cfg |-> "modern", tail |-> "none", fields |-> <<F(TRUE, <<99>>), F(FALSE, <<>>), F(FALSE, <<>>)>>],
            [cfg |-> "uncompressed", tail |-> "blank", fields |-> <<F(FALSE, <<>>), F(FALSE, <<>>), F(TRUE, <<100>>)>>],
            [cfg |-> "classic", tail |-> "spaces", fields |-> <<F(FALSE, <<>>), F(TRUE, <<101>>), F(FALSE, <<>>)>>] >>
Edits == {[k |-> "fill", f |-> f, v |-> Vals[v]] : f \in 0..2, v \in {1, 2, 3, 4, 5}}
         \cup {[k |-> "fill_many", fs |-> <<[f |-> 0, v |-> Vals[1]], [f |-> 2, v |-> Vals[v]]>>] : v \in {2, 4}}
         \cup {[k |-> "note_add", page |-> p, x |-> x, v |-> Vals[v]] : p \in {0, 1}, x \in {10, 35}, v \in {1, 3, 5, 7, 8, 9}}
         \cup {[k |-> "note_update", which |-> w, x |-> 60, v |-> Vals[v]] : w \in 0..1, v \in {2, 5, 8}}
         \cup {[k |-> "note_remove", which |-> w] : w \in 0..1}

\* the model itself
St0 == [fields |-> Bases[1].fields, notes |-> <<>>]
ASSUME \A e \in {x \in Edits : x.k = "fill"} : ~Refusable(St0, e) =>
          /\ Apply(St0, e).fields[e.f + 1] = [has |-> TRUE, v |-> e.v]
          /\ \A i \in 1..3 : i # e.f + 1 => Apply(St0, e).fields[i] = St0.fields[i]
          /\ Apply(St0, e).notes = St0.notes

RECURSIVE SetSeq(_)
SetSeq(S) == IF S = {} THEN <<>> ELSE LET x == CHOOSE y \in S : TRUE IN <<x>> \o SetSeq(S \ {x})
ES == SetSeq(Edits)
NE == Len(ES)
\* histories: a deterministic stride through the sequences of up to MaxEdits edits
Hist(k) == [base |-> Bases[(k % Len(Bases)) + 1],
            edits |-> [x \in 1..(((k \div Len(Bases)) % MaxEdits) + 1) |-> ES[((k * (7 + 3 * x) + x * x * 5) % NE) + 1]]]
VARIABLE done
Init == done = FALSE
Next == /\ ~done
        /\ \A k \in 1..(Stride * Len(Bases) * MaxEdits) : PrintT(<<"REPLAY", ToJson(Hist(k))>>)
        \* two successive fills of different fields, then a third edit: the case in which a reader that chains the new
        \* section to the wrong /Prev loses the first fill
        /\ \A b \in 1..Len(Bases) : PrintT(<<"REPLAY", ToJson([base |-> Bases[b], edits |-> <<[k |-> "fill", f |-> 0, v |-> Vals[1]], [k |-> "fill", f |-> 1, v |-> Vals[3]],
                                                                                           [k |-> "note_add", page |-> 0, x |-> 10, v |-> Vals[1]], [k |-> "fill", f |-> 2, v |-> Vals[2]],
                                                                                           [k |-> "note_remove", which |-> 0]>>])>>)
        /\ done' = TRUE
Spec == Init /\ [][Next]_done
=============================================================================
