SPECIFICATION Spec
CHECK_DEADLOCK FALSE
CONSTANTS
  MaxEdits = 3
  Stride = 1
