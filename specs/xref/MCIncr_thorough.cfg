SPECIFICATION Spec
CHECK_DEADLOCK FALSE
CONSTANTS
  MaxEdits = 4
  Stride = 8
