----------------------------- MODULE DamageTrace -----------------------------
(* B2 for C19.

     base      a valid single-revision file without object streams (premise: checked by the reference reader
               PdfFile in silent steps) and what the library reads from it intact, recovery-enabled preset
     chk_base  the premise holds: no structural problem, one cross-reference section, no object stream, and the
               library's intact reading of every object is the reference reader's
     damaged   a fault sequence of XRefDamage applied to that file, and what the library then reads under the
               recovery-enabled presets: it must be a value with the intact catalog, page count and objects      *)
EXTENDS PdfFile

VARIABLES l, base
tvars == <<allvars, l, base>>
IsEvent(e) == l <= NRec /\ Rec[l].ev = e /\ l' = l + 1
TInit == l = 1 /\ base = 0 /\ LexInit /\ FileIdle
TBase == IsEvent("base") /\ FileStart(l) /\ base' = l
TScan == /\ l <= NRec /\ Rec[l].ev = "chk_base" /\ phase \notin {"idle", "done"}
         /\ FileStep(FALSE) /\ UNCHANGED <<l, base>>
LibSame(lib, ref) == IF ref.t = "stream" THEN lib.t = "stream" /\ SameValue(lib.dict, ref.dict) ELSE SameValue(lib, ref)
TChkBase == /\ IsEvent("chk_base") /\ phase = "done"
            /\ IF Problems = {} /\ Len(Sections) = 1 /\ Sections[1].kind = "table" /\ Len(ObjStms) = 0 THEN TRUE
               ELSE PrintT(<<"PROBLEMS", ToJson([idx |-> l, problems |-> Problems \cup {"premise: not a single classic section without object streams"}])>>) /\ FALSE
            /\ Rec[base].intact.outcome = "value"
            /\ \A n \in InUse : n > 0 => LibSame(Rec[base].intact.objects[ToString(n)], Resolve(n).val)
            /\ UNCHANGED <<allvars, base>>

Same(view) == LET I == Rec[base].intact IN
              view.outcome = "value" /\ view.count = I.count /\ view.catalog = I.catalog /\ view.objects = I.objects
Recovered(e) == Same(e.lenient) /\ Same(e.skip_errors) /\ Same(e.tolerant)      \* the three presets that enable recovery
TDamaged == /\ IsEvent("damaged") /\ Recovered(Rec[l]) /\ UNCHANGED <<allvars, base>>

(* Named deviation (open finding): cross-reference entries that still parse but point at the wrong bytes (all
   offsets shifted, or one entry redirected) are believed as they are: objects come back wrong, missing or as
   errors, and the recovery scan is never tried.  Accepted only for fault sequences that contain such an
   operation, and only while the outcome is still a value or an error (a panic or a hang is never accepted). *)
OffsetsLie(e) == \E i \in 1..Len(e.ops) : e.ops[i].op \in {"shift_all", "corrupt_entry"}
TDamagedKnown == /\ KnownOpen("KF_C19_OFFSETS")
                 /\ IsEvent("damaged")
                 /\ LET e == Rec[l] IN OffsetsLie(e) /\ ~Recovered(e) /\ e.lenient.outcome \in {"value", "error"} /\ e.skip_errors.outcome \in {"value", "error"} /\ e.tolerant.outcome \in {"value", "error"}
                 /\ NoteKnown("KF_C19_OFFSETS", l)
                 /\ UNCHANGED <<allvars, base>>
(* Named deviation (open finding): the recovery scan takes `N G obj` found INSIDE STREAM DATA for object headers; a later
   look-alike replaces the real object.  Accepted only on the base built for it ("decoy"), only when catalog and page count
   are intact and the objects that differ are the ones whose look-alikes sit in the stream (3 and 12). *)
DecoyOnly(view) == LET I == Rec[base].intact IN
                   /\ view.outcome = "value" /\ view.count = I.count /\ view.catalog = I.catalog
                   /\ DOMAIN view.objects = DOMAIN I.objects
                   /\ \A k \in DOMAIN I.objects : k \notin {"3", "12"} => view.objects[k] = I.objects[k]
TDamagedKnownDecoy == /\ KnownOpen("KF_C19_STREAM_HEADERS")
                      /\ IsEvent("damaged") /\ Rec[base].name = "decoy"
                      /\ LET e == Rec[l] IN ~Recovered(e) /\ DecoyOnly(e.lenient) /\ DecoyOnly(e.skip_errors) /\ DecoyOnly(e.tolerant)
                      /\ NoteKnown("KF_C19_STREAM_HEADERS", l)
                      /\ UNCHANGED <<allvars, base>>
TNext == TBase \/ TScan \/ TChkBase \/ TDamaged \/ TDamagedKnown \/ TDamagedKnownDecoy
TraceSpec == TInit /\ [][TNext]_tvars
Prog == Progress(l)
=============================================================================
