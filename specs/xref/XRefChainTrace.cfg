CONSTANTS
  Obj = {1, 2, 3, 4, 5}
  MaxRevs = 8
SPECIFICATION TraceSpec
CONSTRAINT Prog
INVARIANT NewestWins
POSTCONDITION Accepted
CHECK_DEADLOCK FALSE
