SPECIFICATION CSpec
CONSTRAINT Prog
POSTCONDITION Accepted
CHECK_DEADLOCK FALSE
