----------------------------- MODULE MCXRefChain -----------------------------
EXTENDS XRefChain, TLC, Json
\* B1: every complete history with the answer ISO gives for each object and its current generation
Emit == phase = "done" =>
          PrintT(<<"REPLAY", ToJson([revs |-> revs,
                                      expect |-> [n \in Obj |-> Latest(n)],
                                      gen |-> [n \in Obj |-> Gen(n, Len(revs))]])>>)
\* the pinned two-map reader IS wrong on some history in scope (keeps the negative control honest)
ImplAlwaysRight == phase = "done" => \A n \in Obj : ImplResolve(n) = Latest(n)
=============================================================================
