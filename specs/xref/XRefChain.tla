------------------------------ MODULE XRefChain ------------------------------
(* C04 - the newest revision of an object always wins (ISO 32000-1 7.5.4, 7.5.6, 7.5.8).

   A file is a base revision followed by appended revisions.  Each revision has a cross-reference
   section in classic (table) or stream form and may, for every object number,
       keep    say nothing about it
       direct  define it as an ordinary indirect object            (type-1 entry)
       instm   define it inside an object stream                   (type-2 entry, stream form only)
       free    mark it free, bumping its generation                (type-0 entry)
   Every definition carries a distinct marker value, so "which definition did the reader return" is
   observable.

   The reader: find the last startxref, parse that section, follow /Prev to the older ones; the FIRST
   section (newest first) that mentions an object number decides, whatever the type of its entry.    *)
EXTENDS Naturals, Sequences, FiniteSets

CONSTANTS Obj,          \* object numbers that revisions may touch
          MaxRevs

Forms == {"table", "stream"}
Ops == {"keep", "direct", "instm", "free"}
Absent == [k |-> "absent"]

VARIABLES revs,         \* sequence of [form, ops : [Obj -> Ops]]
          phase,        \* "writing" | "reading" | "done"
          sec,          \* reader: index of the next section to parse (0: chain exhausted)
          merged,       \* reader: [Obj -> entry] built so far, ISO rule
          ent, ext      \* reader, implementation-shaped variant of the pinned revision:
                        \* basic and "extended" (compressed) entries merged independently

vars == <<revs, phase, sec, merged, ent, ext>>

Marker(r, n) == 100 * r + n

\* generation of object n as of revision r: one bump per free
Gen(n, r) == Cardinality({i \in 1..r : revs[i].ops[n] = "free"})

\* the entry revision r's section holds for n
EntryOf(r, n) ==
  LET o == revs[r].ops[n] IN
    CASE o = "direct" -> [k |-> "direct", v |-> Marker(r, n), g |-> Gen(n, r)]
      [] o = "instm"  -> [k |-> "instm", v |-> Marker(r, n), g |-> 0]
      [] o = "free"   -> [k |-> "free", g |-> Gen(n, r)]
      [] OTHER        -> Absent

ValueOf(e) == IF e.k \in {"direct", "instm"} THEN e.v ELSE 0          \* 0 stands for the null object

\* ground truth, by definition of "most recent"
Latest(n) ==
  LET S == {r \in 1..Len(revs) : revs[r].ops[n] # "keep"} IN
    IF S = {} THEN 0 ELSE ValueOf(EntryOf(CHOOSE r \in S : \A q \in S : q <= r, n))

WellFormedRev(rv) == rv.form = "table" => \A n \in Obj : rv.ops[n] # "instm"

Init == /\ revs = <<>> /\ phase = "writing" /\ sec = 0
        /\ merged = [n \in Obj |-> Absent] /\ ent = [n \in Obj |-> Absent] /\ ext = [n \in Obj |-> Absent]

AppendRevision == /\ phase = "writing" /\ Len(revs) < MaxRevs
          /\ \E f \in Forms, ops \in [Obj -> Ops] :
               /\ WellFormedRev([form |-> f, ops |-> ops])
               /\ revs' = Append(revs, [form |-> f, ops |-> ops])
          /\ UNCHANGED <<phase, sec, merged, ent, ext>>

\* startxref names the last section
Open == /\ phase = "writing" /\ revs # <<>>
        /\ phase' = "reading" /\ sec' = Len(revs)
        /\ UNCHANGED <<revs, merged, ent, ext>>

\* parse section `sec`, keep what is not yet known, follow /Prev
ParseSection ==
  /\ phase = "reading" /\ sec >= 1
  /\ merged' = [n \in Obj |-> IF merged[n] # Absent THEN merged[n] ELSE EntryOf(sec, n)]
  \* pinned implementation: a compressed entry lands in BOTH maps (a placeholder basic entry and the
  \* extended one); each map keeps its own first-seen value
  /\ ent' = [n \in Obj |-> IF ent[n] # Absent THEN ent[n] ELSE EntryOf(sec, n)]
  /\ ext' = [n \in Obj |-> IF ext[n] # Absent THEN ext[n]
                           ELSE IF EntryOf(sec, n).k = "instm" THEN EntryOf(sec, n) ELSE Absent]
  /\ sec' = sec - 1
  /\ phase' = IF sec = 1 THEN "done" ELSE "reading"
  /\ UNCHANGED revs

Next == AppendRevision \/ Open \/ ParseSection \/ (phase = "done" /\ UNCHANGED vars)
Spec == Init /\ [][Next]_vars

Resolve(n) == ValueOf(merged[n])
\* the pinned look-up: the extended map is consulted first
ImplResolve(n) == IF ext[n] # Absent THEN ValueOf(ext[n]) ELSE ValueOf(ent[n])

(* --------------------------------- properties --------------------------------- *)
NewestWins == phase = "done" => \A n \in Obj : Resolve(n) = Latest(n)

\* negative control: the two-map merge is wrong exactly when some object has a compressed definition
\* that is older than its latest non-compressed mention
StaleCompressed(n) ==
  \E r \in 1..Len(revs) : /\ revs[r].ops[n] = "instm"
                          /\ \E q \in (r + 1)..Len(revs) : revs[q].ops[n] \in {"direct", "free"}
                          /\ ~\E q \in (r + 1)..Len(revs) :
                                /\ revs[q].ops[n] = "instm"
                                /\ \A p \in (q + 1)..Len(revs) : revs[p].ops[n] \in {"keep", "instm"}
ImplWrongExactlyWhen ==
  phase = "done" => \A n \in Obj : (ImplResolve(n) # Latest(n)) => StaleCompressed(n)
=============================================================================
