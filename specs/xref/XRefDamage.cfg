SPECIFICATION Spec
CHECK_DEADLOCK FALSE
CONSTANTS
  N = 2
INVARIANTS
  EveryDamageBites
  Emit
