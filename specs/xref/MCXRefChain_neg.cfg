CONSTANTS
  Obj = {1, 2}
  MaxRevs = 2
SPECIFICATION Spec
INVARIANT ImplAlwaysRight
CHECK_DEADLOCK FALSE
