------------------------------ MODULE IncrTrace ------------------------------
(* B2 for C17.  One case per history:

     base       a form document the library wrote (classic / cross-reference stream / object streams) and what the
                library reads from it (fields, text notes)
     chk_base   the reference reader PdfFile finds it sound and reads the authored field values
     edit       one edit applied to the current file: accepted or refused, the resulting bytes, the library's reading
     chk_edit   refused: the edit is one the API documents it refuses, and nothing changed.
                accepted: the new file BEGINS WITH the previous file's bytes; the reference reader finds a sound file
                with exactly one more cross-reference section; every object the new section does not mention resolves
                to what it resolved to before; fields and notes - read by the reference reader and by the library -
                are the model's after the edit                                                                    *)
EXTENDS PdfFile, IncrUpdate
TS == INSTANCE TextString
DecodeText(bs) == TS!DecodeText(bs)

VARIABLES l, st, prevAt, prevRes, prevSecs
tvars == <<allvars, l, st, prevAt, prevRes, prevSecs>>
IsEvent(e) == l <= NRec /\ Rec[l].ev = e /\ l' = l + 1

TInit == l = 1 /\ st = [fields |-> <<>>, notes |-> <<>>] /\ prevAt = 0 /\ prevRes = <<>> /\ prevSecs = 0 /\ LexInit /\ FileIdle
TBase == /\ IsEvent("base") /\ Rec[l].built /\ FileStart(l)
         /\ st' = [fields |-> Rec[l].hist.base.fields, notes |-> <<>>] /\ prevAt' = 0 /\ prevRes' = <<>> /\ prevSecs' = 0
TEdit == /\ IsEvent("edit") /\ FileStart(l) /\ UNCHANGED <<st, prevAt, prevRes, prevSecs>>
TScan == /\ l <= NRec /\ Rec[l].ev \in {"chk_base", "chk_edit"} /\ phase \notin {"idle", "done"}
         /\ FileStep(FALSE) /\ UNCHANGED <<l, st, prevAt, prevRes, prevSecs>>

\* ---- what the reference reader reads ----
K_AcroForm == <<65, 99, 114, 111, 70, 111, 114, 109>>    K_Fields == <<70, 105, 101, 108, 100, 115>>
K_T == <<84>>   K_V == <<86>>   K_Annots == <<65, 110, 110, 111, 116, 115>>   K_Subtype == <<83, 117, 98, 116, 121, 112, 101>>
K_Rect == <<82, 101, 99, 116>>  N_Text == <<84, 101, 120, 116>>
TextOf(v) == IF v.t = "str" THEN DecodeText(v.b) ELSE <<>>
FieldDicts == LET fs == Deref(Get(Deref(Get(Catalog, K_AcroForm)), K_Fields)) IN
              IF fs.t = "arr" THEN [x \in 1..Len(fs.v) |-> Deref(fs.v[x])] ELSE <<>>
FieldName(i) == <<102, 48 + i>>
RefField(i) == LET S == {x \in 1..Len(FieldDicts) : TextOf(Deref(Get(FieldDicts[x], K_T))) = FieldName(i)} IN
               IF S = {} THEN [has |-> FALSE, v |-> <<0>>]
               ELSE LET v == Deref(Get(FieldDicts[CHOOSE x \in S : TRUE], K_V)) IN [has |-> v.t = "str", v |-> TextOf(v)]
\* a small non-negative coordinate in millionths (the lexer's reals carry exactly six decimals)
DigitV(ch) == CASE ch = "0" -> 0 [] ch = "1" -> 1 [] ch = "2" -> 2 [] ch = "3" -> 3 [] ch = "4" -> 4 [] ch = "5" -> 5 [] ch = "6" -> 6 [] ch = "7" -> 7 [] ch = "8" -> 8 [] OTHER -> 9
RECURSIVE StrNum(_, _, _)
StrNum(str, x, a) == IF x > Len(str) THEN a ELSE IF SubSeq(str, x, x) = "." THEN StrNum(str, x + 1, a) ELSE StrNum(str, x + 1, a * 10 + DigitV(SubSeq(str, x, x)))
Micro1(v) == IF v.t = "int" /\ IsSmallInt(v) /\ Len(v.s) <= 3 THEN IntOf(v) * 1000000
             ELSE IF v.t = "real" /\ Len(v.s) <= 10 /\ SubSeq(v.s, 1, 1) # "-" THEN StrNum(v.s, 1, 0) ELSE 0 - 1
RefNotes == LET RECURSIVE OfPage(_) OfPage(x) ==
                  IF x > Len(PageList) THEN <<>>
                  ELSE LET an == Deref(Get(PageList[x].node, K_Annots))
                           ds == IF an.t = "arr" THEN [y \in 1..Len(an.v) |-> Deref(an.v[y])] ELSE <<>>
                           ts == SelectSeq(ds, LAMBDA d : d.t = "dict" /\ IsName(Get(d, K_Subtype), N_Text))
                       IN [y \in 1..Len(ts) |-> [page |-> x - 1, x |-> Micro1(Deref(Get(ts[y], K_Rect)).v[1]), contents |-> TextOf(Deref(Get(ts[y], <<67, 111, 110, 116, 101, 110, 116, 115>>)))]]
                          \o OfPage(x + 1)
            IN OfPage(1)
\* ---- what the library reads ----
LibField(L, i) == LET S == {x \in 1..Len(L.fields) : L.fields[x].name = FieldName(i)} IN
                  IF S = {} THEN [has |-> FALSE, v |-> <<0>>] ELSE LET f == L.fields[CHOOSE x \in S : TRUE] IN [has |-> f.has, v |-> f.v]
LibNotes(L) == [x \in 1..Len(L.notes) |-> [page |-> L.notes[x].page, x |-> L.notes[x].x, contents |-> L.notes[x].contents]]
FieldEq(a, b) == a.has = b.has /\ (a.has => a.v = b.v)
ContentOK(model, L) ==
  (IF \A i \in 1..Len(model.fields) : FieldEq(RefField(i - 1), model.fields[i]) THEN {} ELSE {"reference reader: field values differ from the model"})
  \cup (IF L.open /\ \A i \in 1..Len(model.fields) : FieldEq(LibField(L, i - 1), model.fields[i]) THEN {} ELSE {"library: field values differ from the model"})
  \cup (IF SameNotes(RefNotes, model.notes) THEN {} ELSE {"reference reader: text notes differ from the model"})
  \cup (IF L.notesOk /\ SameNotes(LibNotes(L), model.notes) THEN {} ELSE {"library: text notes differ from the model"})
Report(probs) == IF probs = {} THEN TRUE ELSE PrintT(<<"PROBLEMS", ToJson([idx |-> l, problems |-> probs])>>) /\ FALSE

ResMap == [n \in InUse |-> Resolve(n).val]
TChkBase == /\ IsEvent("chk_base") /\ phase = "done"
            /\ Report(Problems \cup ContentOK(st, Rec[fcase].lib))
            /\ prevAt' = fcase /\ prevRes' = ResMap /\ prevSecs' = Len(Sections)
            /\ UNCHANGED <<allvars, st>>

IsPrefix(a, b) == Len(a) <= Len(b) /\ \A x \in 1..Len(a) : a[x] = b[x]
NewestMentions == {Sections[1].es[x].n : x \in 1..Len(Sections[1].es)}
TChkEdit ==
  /\ IsEvent("chk_edit") /\ phase = "done"
  /\ LET e == Rec[fcase] IN
     IF ~e.ok
     THEN /\ Report((IF Refusable(st, e.edit) THEN {} ELSE {"an edit the API does not document as refused was refused: " \o e.err})
                    \cup (IF e.bytes = Rec[prevAt].bytes THEN {} ELSE {"a refused edit changed the file"}))
          /\ UNCHANGED <<st, prevAt, prevRes, prevSecs>>
     ELSE LET m2 == Apply(st, e.edit) IN
          /\ Report((IF Refusable(st, e.edit) /\ e.edit.k \notin {"fill", "fill_many"} THEN {"an edit that must be refused was accepted"} ELSE {})
                    \cup (IF IsPrefix(Rec[prevAt].bytes, e.bytes) /\ Len(e.bytes) > Len(Rec[prevAt].bytes) THEN {} ELSE {"the new file does not begin with the previous file's bytes"})
                    \cup Problems
                    \cup (IF Len(Sections) = prevSecs + 1 THEN {} ELSE {"not exactly one more cross-reference section"})
                    \cup (IF \A n \in DOMAIN prevRes : n \in NewestMentions \/ (Resolve(n).found /\ Resolve(n).val = prevRes[n]) THEN {} ELSE {"an object the update does not mention resolves differently"})
                    \cup ContentOK(m2, e.lib))
          /\ st' = m2 /\ prevAt' = fcase /\ prevRes' = ResMap /\ prevSecs' = Len(Sections)
  /\ UNCHANGED allvars
TNext == TBase \/ TEdit \/ TScan \/ TChkBase \/ TChkEdit
TraceSpec == TInit /\ [][TNext]_tvars
Prog == Progress(l)
=============================================================================
