----------------------------- MODULE IncrUpdate -----------------------------
(* C17 - incremental updates as a state machine over the ABSTRACT content of a form document:

     fields   sequence of [has, v]   the value of text field f0, f1, ... (v: code points)
     notes    sequence of [page, x, contents]   the text notes, in the order the editor lists them

   Edits: Fill(f, v), FillMany(pairs), NoteAdd(page, x, v), NoteUpdate(which, x, v), NoteRemove(which).
   An edit is REFUSABLE when the API documents that it rejects it (a value outside WinAnsiEncoding for a text field
   with a standard-font appearance, empty note contents, a note that does not exist); a refused edit changes
   nothing.  An accepted edit changes exactly what it names.  The file-level clauses (append-only, one more valid
   revision, untouched objects unchanged) are stated in IncrTrace on top of the reference reader.             *)
EXTENDS Naturals, Sequences, FiniteSets, EncodingTables

WinAnsiRepertoire == {WinAnsiTable[b + 1] : b \in 0..255} \ {Undefined}
Encodable(v) == \A x \in 1..Len(v) : v[x] \in WinAnsiRepertoire \/ v[x] \in {9, 10, 13, 160, 173}
Blank(v) == \A x \in 1..Len(v) : v[x] \in {9, 10, 13, 32}

Refusable(st, e) ==
  CASE e.k = "fill" -> ~Encodable(e.v)
    [] e.k = "fill_many" -> \E x \in 1..Len(e.fs) : ~Encodable(e.fs[x].v)
    [] e.k = "note_add" -> Blank(e.v) \/ e.page >= 2
    [] e.k = "note_update" -> Blank(e.v) \/ e.which >= Len(st.notes)
    [] OTHER -> e.which >= Len(st.notes)

RECURSIVE FillAll(_, _, _)
FillAll(fs, pairs, x) == IF x > Len(pairs) THEN fs ELSE FillAll([fs EXCEPT ![pairs[x].f + 1] = [has |-> TRUE, v |-> pairs[x].v]], pairs, x + 1)
Without(s, k) == [x \in 1..(Len(s) - 1) |-> IF x < k THEN s[x] ELSE s[x + 1]]
Apply(st, e) ==
  CASE e.k = "fill" -> [st EXCEPT !.fields[e.f + 1] = [has |-> TRUE, v |-> e.v]]
    [] e.k = "fill_many" -> [st EXCEPT !.fields = FillAll(@, e.fs, 1)]
    [] e.k = "note_add" -> [st EXCEPT !.notes = Append(@, [page |-> e.page, x |-> e.x * 1000000, contents |-> e.v])]
    [] e.k = "note_update" -> [st EXCEPT !.notes[e.which + 1] = [page |-> @.page, x |-> e.x * 1000000, contents |-> e.v]]
    [] OTHER -> [st EXCEPT !.notes = Without(@, e.which + 1)]
\* notes as the editor lists them: by page, then by creation (object number); the model keeps that order as long as
\* every note of a history is added on a page not before the existing ones - the generator adds in page order
SameNotes(a, b) == Len(a) = Len(b) /\ \A x \in 1..Len(a) : \E y \in 1..Len(b) : a[x] = b[y]
=============================================================================
