----------------------------- MODULE XRefDamage -----------------------------
(* C19 - damage to the cross-reference data of a valid single-revision file without object streams.

   Abstract file: N objects in the body (never touched), a classic table with one entry per object, a trailer,
   a startxref value.  A DAMAGE is one of a fixed catalogue of operations on the table / trailer / startxref;
   the state records what has been done.  Whatever was done, the body still holds every object under its own
   `n g obj` header, so a header scan recovers exactly the intact object map: that is why the property is
   satisfiable, and it is the invariant checked here.  TLC's reachable states up to two damage steps are the
   fault sequences replayed on real files.                                                                  *)
EXTENDS Naturals, Sequences, FiniteSets, TLC, Json

CONSTANTS N            \* objects 1..N (abstract)
Obj == 1..N

VARIABLES entry,       \* object -> [off: "right" | "shifted" | "zero" | "other" | "eof", inuse: BOOLEAN]
          table,       \* "present" | "deleted" | "badheader"
          trailer,     \* "present" | "truncated"
          startx,      \* "right" | "zero" | "eof" | "midbody" | "missing"
          ops          \* the damage operations applied, in order (this is what is replayed)
vars == <<entry, table, trailer, startx, ops>>

Init == /\ entry = [n \in Obj |-> [off |-> "right", inuse |-> TRUE]]
        /\ table = "present" /\ trailer = "present" /\ startx = "right" /\ ops = <<>>

ShiftAll(k) == /\ table = "present"
               /\ entry' = [n \in Obj |-> [entry[n] EXCEPT !.off = "shifted"]]
               /\ ops' = Append(ops, [op |-> "shift_all", k |-> k, n |-> 0])
               /\ UNCHANGED <<table, trailer, startx>>
CorruptEntry(n, how) == /\ table = "present"
                        /\ entry' = [entry EXCEPT ![n].off = how]
                        /\ ops' = Append(ops, [op |-> "corrupt_entry", k |-> (CASE how = "zero" -> 0 [] how = "other" -> 1 [] OTHER -> 2), n |-> n])
                        /\ UNCHANGED <<table, trailer, startx>>
\* NOT part of the catalogue: an entry flipped from n to f yields a VALID file that says the object is free; no
\* reader can tell it from damage, and "a freed object reads as null" (C04) is what it must then do.
FlipFree(n) == /\ table = "present" /\ entry[n].inuse
               /\ entry' = [entry EXCEPT ![n].inuse = FALSE]
               /\ ops' = Append(ops, [op |-> "flip_free", k |-> 0, n |-> n])
               /\ UNCHANGED <<table, trailer, startx>>
DeleteTable == /\ table = "present" /\ table' = "deleted"
               /\ ops' = Append(ops, [op |-> "delete_table", k |-> 0, n |-> 0]) /\ UNCHANGED <<entry, trailer, startx>>
BadHeader(k) == /\ table = "present" /\ table' = "badheader"
                /\ ops' = Append(ops, [op |-> "bad_subsection_header", k |-> k, n |-> 0]) /\ UNCHANGED <<entry, trailer, startx>>
DeleteStartxref == /\ startx # "missing" /\ startx' = "missing"
                   /\ ops' = Append(ops, [op |-> "delete_startxref", k |-> 0, n |-> 0]) /\ UNCHANGED <<entry, table, trailer>>
StartxrefTo(v) == /\ startx \notin {"missing", v} /\ startx' = v
                  /\ ops' = Append(ops, [op |-> "startxref_to", k |-> (CASE v = "zero" -> 0 [] v = "eof" -> 1 [] OTHER -> 2), n |-> 0])
                  /\ UNCHANGED <<entry, table, trailer>>
TruncateTrailer == /\ trailer = "present" /\ trailer' = "truncated" /\ startx' = "missing"
                   /\ ops' = Append(ops, [op |-> "truncate_trailer", k |-> 0, n |-> 0]) /\ UNCHANGED <<entry, table>>

Next == /\ Len(ops) < 2
        /\ \/ \E k \in {1, 7, 1000} : ShiftAll(k)
           \/ \E n \in Obj, how \in {"zero", "other", "eof"} : CorruptEntry(n, how)
           \/ DeleteTable \/ \E k \in {0, 1, 2, 3} : BadHeader(k)      \* 0: count far too large, 1: not numbers, 2 / 3: the subsection starts one / two objects late
           \/ DeleteStartxref \/ \E v \in {"zero", "eof", "midbody"} : StartxrefTo(v)
           \/ TruncateTrailer
Spec == Init /\ [][Next]_vars

\* the body is not a variable: no action can touch it, so the header scan of the body is the intact map in every
\* reachable state.  What varies is whether the cross-reference data still tells the truth:
XrefTruthful == table = "present" /\ trailer = "present" /\ startx = "right" /\ \A n \in Obj : entry[n] = [off |-> "right", inuse |-> TRUE]
Damaged == ops # <<>>
\* every damage in the catalogue really changes what the cross-reference data says (no vacuous fault)
EveryDamageBites == Damaged => ~XrefTruthful
\* replay output: one line per reachable damaged state
Emit == Damaged => PrintT(<<"REPLAY", ToJson([ops |-> ops])>>)
=============================================================================
