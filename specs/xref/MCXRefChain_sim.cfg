CONSTANTS
  Obj = {1, 2, 3}
  MaxRevs = 5
SPECIFICATION Spec
INVARIANTS NewestWins ImplWrongExactlyWhen Emit
CHECK_DEADLOCK FALSE
