CONSTANTS
  Obj = {1, 2}
  MaxRevs = 2
SPECIFICATION Spec
INVARIANTS NewestWins ImplWrongExactlyWhen Emit
CHECK_DEADLOCK FALSE
