#!/usr/bin/env python3
"""Writes specs/text/EncodingTables.tla from a transcription of ISO 32000-1 Annex D (Table D.2, Latin character
set and encodings: STD / MAC / WIN / PDF columns) keyed by glyph name, plus the Adobe glyph list values of those names.
The transcription below is the trusted source; python's cp1252 / mac_roman codecs are used only as a cross-check of
the transcription where the encodings coincide (differences are listed explicitly)."""
import os

U = 0x110000  # Undefined
# glyph name -> (unicode, STD, MAC, WIN, PDF) octal codes as in Table D.2 (None = not in that encoding)
T = """
A 0041 101 101 101 101
AE 00C6 341 256 306 306
Aacute 00C1 - 347 301 301
Acircumflex 00C2 - 345 302 302
Adieresis 00C4 - 200 304 304
Agrave 00C0 - 313 300 300
Aring 00C5 - 201 305 305
Atilde 00C3 - 314 303 303
B 0042 102 102 102 102
C 0043 103 103 103 103
Ccedilla 00C7 - 202 307 307
D 0044 104 104 104 104
E 0045 105 105 105 105
Eacute 00C9 - 203 311 311
Ecircumflex 00CA - 346 312 312
Edieresis 00CB - 350 313 313
Egrave 00C8 - 351 310 310
Eth 00D0 - - 320 320
Euro 20AC - - 200 240
F 0046 106 106 106 106
G 0047 107 107 107 107
H 0048 110 110 110 110
I 0049 111 111 111 111
Iacute 00CD - 352 315 315
Icircumflex 00CE - 353 316 316
Idieresis 00CF - 354 317 317
Igrave 00CC - 355 314 314
J 004A 112 112 112 112
K 004B 113 113 113 113
L 004C 114 114 114 114
Lslash 0141 350 - - 225
M 004D 115 115 115 115
N 004E 116 116 116 116
Ntilde 00D1 - 204 321 321
O 004F 117 117 117 117
OE 0152 352 316 214 226
Oacute 00D3 - 356 323 323
Ocircumflex 00D4 - 357 324 324
Odieresis 00D6 - 205 326 326
Ograve 00D2 - 361 322 322
Oslash 00D8 351 257 330 330
Otilde 00D5 - 315 325 325
P 0050 120 120 120 120
Q 0051 121 121 121 121
R 0052 122 122 122 122
S 0053 123 123 123 123
Scaron 0160 - - 212 227
T 0054 124 124 124 124
Thorn 00DE - - 336 336
U 0055 125 125 125 125
Uacute 00DA - 362 332 332
Ucircumflex 00DB - 363 333 333
Udieresis 00DC - 206 334 334
Ugrave 00D9 - 364 331 331
V 0056 126 126 126 126
W 0057 127 127 127 127
X 0058 130 130 130 130
Y 0059 131 131 131 131
Yacute 00DD - - 335 335
Ydieresis 0178 - 331 237 230
Z 005A 132 132 132 132
Zcaron 017D - - 216 231
a 0061 141 141 141 141
aacute 00E1 - 207 341 341
acircumflex 00E2 - 211 342 342
acute 00B4 302 253 264 264
adieresis 00E4 - 212 344 344
ae 00E6 361 276 346 346
agrave 00E0 - 210 340 340
ampersand 0026 046 046 046 046
aring 00E5 - 214 345 345
asciicircum 005E 136 136 136 136
asciitilde 007E 176 176 176 176
asterisk 002A 052 052 052 052
at 0040 100 100 100 100
atilde 00E3 - 213 343 343
b 0062 142 142 142 142
backslash 005C 134 134 134 134
bar 007C 174 174 174 174
braceleft 007B 173 173 173 173
braceright 007D 175 175 175 175
bracketleft 005B 133 133 133 133
bracketright 005D 135 135 135 135
breve 02D8 306 371 - 030
brokenbar 00A6 - - 246 246
bullet 2022 267 245 225 200
c 0063 143 143 143 143
caron 02C7 317 377 - 031
ccedilla 00E7 - 215 347 347
cedilla 00B8 313 374 270 270
cent 00A2 242 242 242 242
circumflex 02C6 303 366 210 032
colon 003A 072 072 072 072
comma 002C 054 054 054 054
copyright 00A9 - 251 251 251
currency 00A4 250 333 244 244
d 0064 144 144 144 144
dagger 2020 262 240 206 201
daggerdbl 2021 263 340 207 202
degree 00B0 - 241 260 260
dieresis 00A8 310 254 250 250
divide 00F7 - 326 367 367
dollar 0024 044 044 044 044
dotaccent 02D9 307 372 - 033
dotlessi 0131 365 365 - 232
e 0065 145 145 145 145
eacute 00E9 - 216 351 351
ecircumflex 00EA - 220 352 352
edieresis 00EB - 221 353 353
egrave 00E8 - 217 350 350
eight 0038 070 070 070 070
ellipsis 2026 274 311 205 203
emdash 2014 320 321 227 204
endash 2013 261 320 226 205
equal 003D 075 075 075 075
eth 00F0 - - 360 360
exclam 0021 041 041 041 041
exclamdown 00A1 241 301 241 241
f 0066 146 146 146 146
fi FB01 256 336 - 223
five 0035 065 065 065 065
fl FB02 257 337 - 224
florin 0192 246 304 203 206
four 0034 064 064 064 064
fraction 2044 244 332 - 207
g 0067 147 147 147 147
germandbls 00DF 373 247 337 337
grave 0060 301 140 140 140
greater 003E 076 076 076 076
guillemotleft 00AB 253 307 253 253
guillemotright 00BB 273 310 273 273
guilsinglleft 2039 254 334 213 210
guilsinglright 203A 255 335 233 211
h 0068 150 150 150 150
hungarumlaut 02DD 315 375 - 034
hyphen 002D 055 055 055 055
i 0069 151 151 151 151
iacute 00ED - 222 355 355
icircumflex 00EE - 224 356 356
idieresis 00EF - 225 357 357
igrave 00EC - 223 354 354
j 006A 152 152 152 152
k 006B 153 153 153 153
l 006C 154 154 154 154
less 003C 074 074 074 074
logicalnot 00AC - 302 254 254
lslash 0142 370 - - 233
m 006D 155 155 155 155
macron 00AF 305 370 257 257
minus 2212 - - - 212
mu 00B5 - 265 265 265
multiply 00D7 - - 327 327
n 006E 156 156 156 156
nine 0039 071 071 071 071
ntilde 00F1 - 226 361 361
numbersign 0023 043 043 043 043
o 006F 157 157 157 157
oacute 00F3 - 227 363 363
ocircumflex 00F4 - 231 364 364
odieresis 00F6 - 232 366 366
oe 0153 372 317 234 234
ogonek 02DB 316 376 - 035
ograve 00F2 - 230 362 362
one 0031 061 061 061 061
onehalf 00BD - - 275 275
onequarter 00BC - - 274 274
onesuperior 00B9 - - 271 271
ordfeminine 00AA 343 273 252 252
ordmasculine 00BA 353 274 272 272
oslash 00F8 371 277 370 370
otilde 00F5 - 233 365 365
p 0070 160 160 160 160
paragraph 00B6 266 246 266 266
parenleft 0028 050 050 050 050
parenright 0029 051 051 051 051
percent 0025 045 045 045 045
period 002E 056 056 056 056
periodcentered 00B7 264 341 267 267
perthousand 2030 275 344 211 213
plus 002B 053 053 053 053
plusminus 00B1 - 261 261 261
q 0071 161 161 161 161
question 003F 077 077 077 077
questiondown 00BF 277 300 277 277
quotedbl 0022 042 042 042 042
quotedblbase 201E 271 343 204 214
quotedblleft 201C 252 322 223 215
quotedblright 201D 272 323 224 216
quoteleft 2018 140 324 221 217
quoteright 2019 047 325 222 220
quotesinglbase 201A 270 342 202 221
quotesingle 0027 251 047 047 047
r 0072 162 162 162 162
registered 00AE - 250 256 256
ring 02DA 312 373 - 036
s 0073 163 163 163 163
scaron 0161 - - 232 235
section 00A7 247 244 247 247
semicolon 003B 073 073 073 073
seven 0037 067 067 067 067
six 0036 066 066 066 066
slash 002F 057 057 057 057
space 0020 040 040 040 040
sterling 00A3 243 243 243 243
t 0074 164 164 164 164
thorn 00FE - - 376 376
three 0033 063 063 063 063
threequarters 00BE - - 276 276
threesuperior 00B3 - - 263 263
tilde 02DC 304 367 230 037
trademark 2122 - 252 231 222
two 0032 062 062 062 062
twosuperior 00B2 - - 262 262
u 0075 165 165 165 165
uacute 00FA - 234 372 372
ucircumflex 00FB - 236 373 373
udieresis 00FC - 237 374 374
ugrave 00F9 - 235 371 371
underscore 005F 137 137 137 137
v 0076 166 166 166 166
w 0077 167 167 167 167
x 0078 170 170 170 170
y 0079 171 171 171 171
yacute 00FD - - 375 375
ydieresis 00FF - 330 377 377
yen 00A5 245 264 245 245
z 007A 172 172 172 172
zcaron 017E - - 236 236
zero 0030 060 060 060 060
"""


def tables():
    enc = {k: [U] * 256 for k in ("STD", "MAC", "WIN", "PDF")}
    for line in T.strip().splitlines():
        name, uni, std, mac, win, pdf = line.split()
        u = int(uni, 16)
        for key, col in (("STD", std), ("MAC", mac), ("WIN", win), ("PDF", pdf)):
            if col != "-":
                code = int(col, 8)
                assert enc[key][code] == U, (key, code, name)
                enc[key][code] = u
    # Annex D notes:
    #  - MacRoman and WinAnsi: code 040 (space) is also the no-break space at 312 (MAC) / 240 (WIN)
    enc["MAC"][0o312] = 0x0020
    enc["WIN"][0o240] = 0x0020
    #  - WinAnsi: the hyphen is also encoded as 255 (octal); bullet for unused codes is a viewer convention, not an assignment
    enc["WIN"][0o255] = 0x002D
    return enc


def crosscheck(enc):
    # WinAnsi vs cp1252: same wherever cp1252 defines a character, except 0xA0 (nbsp -> space) and 0xAD (shy -> hyphen)
    diffs = []
    for b in range(32, 256):
        try:
            c = ord(bytes([b]).decode("cp1252"))
        except UnicodeDecodeError:
            c = U
        if enc["WIN"][b] != c and b not in (0xA0, 0xAD):
            diffs.append(("WIN", b, hex(enc["WIN"][b]), hex(c)))
    for b in range(32, 256):
        c = ord(bytes([b]).decode("mac_roman"))
        if enc["MAC"][b] != c:
            diffs.append(("MAC", b, hex(enc["MAC"][b]), hex(c)))
    return diffs


def main():
    enc = tables()
    d = crosscheck(enc)
    out = os.path.join(os.path.dirname(os.path.dirname(os.path.abspath(__file__))), "specs", "text", "EncodingTables.tla")
    with open(out, "w") as f:
        f.write("--------------------------- MODULE EncodingTables ---------------------------\n")
        f.write("(* GENERATED by bin/gen_encodings.py from the transcription of ISO 32000-1 Annex D, Table D.2.\n")
        f.write("   Table[b + 1] is the Unicode scalar value of byte b, Undefined (1114112) where the encoding assigns nothing.\n")
        f.write("   Differences from python's cp1252 / mac_roman codecs (expected: PDF's MacRoman predates the euro and lacks\n")
        f.write("   the Mac-only mathematical symbols): %s *)\n" % ("; ".join("%s %d spec=%s py=%s" % x for x in d)))
        f.write("Undefined == 1114112\n")
        for key, nm in (("STD", "StandardTable"), ("MAC", "MacRomanTable"), ("WIN", "WinAnsiTable"), ("PDF", "PDFDocTable")):
            f.write("%s == <<\n" % nm)
            rows = [", ".join(str(x) for x in enc[key][i:i + 16]) for i in range(0, 256, 16)]
            f.write(",\n".join("  " + r for r in rows))
            f.write(">>\n")
        # NOT normative: the Mac OS Roman table of current systems (python's mac_roman codec), used only to describe a
        # recorded deviation of the library (its MacRoman decoder follows this table instead of Annex D)
        modern = [ord(bytes([b]).decode("mac_roman")) for b in range(256)]
        f.write("ModernMacRomanTable == <<\n")
        f.write(",\n".join("  " + ", ".join(str(x) for x in modern[i:i + 16]) for i in range(0, 256, 16)))
        f.write(">>\n")
        f.write("=============================================================================\n")
    print("differences from python codecs:", d)


if __name__ == "__main__":
    main()
