"""Shared driver library for /verif checks (python3, stdlib only).

Exit-code discipline (DESIGN §1.2 rule 5):
  0  property held on everything explored (KNOWN-FINDING lines allowed)
  1  only together with a line  VIOLATION property=<id> replay=<path>
  2  tool failure (build failed, TLC crashed, timeout of the checker itself)
"""
import hashlib
import json
import os
import re
import shutil
import subprocess
import sys
import time

VERIF = os.path.dirname(os.path.dirname(os.path.abspath(__file__)))
SPECS = os.path.join(VERIF, "specs")
HARNESS = os.path.join(VERIF, "harness")
VH = os.path.join(HARNESS, "target", "debug", "vh")
TLA_JAR = "/opt/veriftools/tla/tla2tools.jar"
TLA_DEPS = "/opt/veriftools/tla/CommunityModules-deps.jar"
PRIM = os.path.join(VERIF, "bin", "primc")
PRIM_SERVER = os.path.join(VERIF, "bin", "prim")


class ToolError(Exception):
    pass


def log(*a):
    print(*a, flush=True)


def die_tool(msg):
    log("TOOL-ERROR:", msg)
    sys.exit(2)


# --------------------------------------------------------------------------------------------
# build
# --------------------------------------------------------------------------------------------
def build_harness():
    """cargo build of the harness against /repo's current working tree (hooks on)."""
    t0 = time.time()
    lock = os.path.join(HARNESS, "Cargo.lock")
    if not os.path.exists(lock):
        shutil.copy("/repo/Cargo.lock", lock)
    env = dict(os.environ)
    env["CARGO_NET_OFFLINE"] = "true"
    # serialise concurrent builds of the same target dir politely (cargo has its own lock)
    p = subprocess.run(["cargo", "build", "--offline", "--quiet"], cwd=HARNESS, env=env,
                       stdout=subprocess.PIPE, stderr=subprocess.STDOUT, text=True)
    if p.returncode != 0:
        log(p.stdout[-6000:])
        die_tool("harness build failed (the tree under /repo does not compile with hooks on?)")
    return time.time() - t0


def build_harness_unoptimised():
    """A second build of the harness with the library at opt-level 0 (what `cargo build` gives a user by default): stack
    depth depends on it - no tail calls are eliminated, frames are at their largest.  Own target directory."""
    env = dict(os.environ)
    env["CARGO_NET_OFFLINE"] = "true"
    env["CARGO_TARGET_DIR"] = os.path.join(HARNESS, "target0")
    p = subprocess.run(["cargo", "build", "--offline", "--quiet", "--config", "profile.dev.package.oxidize-pdf.opt-level=0"], cwd=HARNESS, env=env,
                       stdout=subprocess.PIPE, stderr=subprocess.STDOUT, text=True)
    if p.returncode != 0:
        log(p.stdout[-6000:])
        die_tool("unoptimised harness build failed")
    return os.path.join(HARNESS, "target0", "debug", "vh")


def vh(args, stdin=None, timeout=1800, env=None, check=True):
    """Run the harness binary; returns (returncode, stdout, stderr)."""
    e = dict(os.environ)
    if env:
        e.update(env)
    e.setdefault("RUST_BACKTRACE", "0")
    try:
        p = subprocess.run([VH] + [str(a) for a in args], input=stdin, stdout=subprocess.PIPE,
                           stderr=subprocess.PIPE, text=True, timeout=timeout, env=e)
    except subprocess.TimeoutExpired:
        raise ToolError("harness timeout: vh %s" % " ".join(map(str, args)))
    if check and p.returncode != 0:
        raise ToolError("vh %s exited %d: %s" % (" ".join(map(str, args)), p.returncode, p.stderr[-3000:]))
    return p.returncode, p.stdout, p.stderr


# --------------------------------------------------------------------------------------------
# TLC
# --------------------------------------------------------------------------------------------
class TlcResult:
    def __init__(self):
        self.generated = 0      # "states generated"  (= transitions taken, counting the initial ones)
        self.distinct = 0       # "distinct states found"
        self.depth = 0
        self.ok = False         # finished with "No error has been found"
        self.violation = None   # text of the first error line
        self.out = ""
        self.replays = []       # decoded JSON objects printed as <<"REPLAY", json>>
        self.prints = []        # other <<"TAG", ...>> lines: (tag, raw)
        self.coverage = {}      # action name -> (distinct, total) when -coverage is on
        self.wall = 0.0
        self.timed_out = False


_REPLAY_RE = re.compile(r'^<<"([A-Z_]+)", (".*")>>$')


def _parse_tlc_output(res, text):
    res.out = text
    for line in text.splitlines():
        m = _REPLAY_RE.match(line)
        if m:
            tag, lit = m.group(1), m.group(2)
            try:
                s = json.loads(lit)
                if tag == "REPLAY":
                    res.replays.append(json.loads(s))
                else:
                    res.prints.append((tag, json.loads(s)))
            except Exception:
                res.prints.append((tag, lit))
            continue
        m = re.search(r"(\d+) states generated, (\d+) distinct states found", line)
        if m:
            res.generated = int(m.group(1))
            res.distinct = int(m.group(2))
        m = re.search(r"The depth of the complete state graph search is (\d+)", line)
        if m:
            res.depth = int(m.group(1))
        if "No error has been found" in line:
            res.ok = True
        if res.violation is None and (line.startswith("Error:") or "is violated" in line
                                      or "was violated" in line or "Deadlock reached" in line):
            res.violation = line.strip()
        m = re.match(r"^<(\w+) line \d+, col \d+ to line \d+, col \d+ of module (\w+)>: (\d+):(\d+)", line)
        if m:
            res.coverage[m.group(1)] = (int(m.group(3)), int(m.group(4)))
    if res.violation is not None:
        res.ok = False
    elif "Simulation" in text and "Finished in" in text and not res.ok:
        # -simulate ends without the "No error has been found" line
        res.ok = True
        m = re.search(r"The number of states generated: (\d+)", text)
        if m:
            res.generated = int(m.group(1))
            res.distinct = res.distinct or int(m.group(1))


def tlc(spec_dir, module, cfg=None, workers=4, env=None, timeout=900, simulate=None, depth=None,
        seed=None, coverage=False, workdir=None, xmx="4g", deque=False, extra=None, libs=(), out_file=None):
    """Run TLC on specs/<spec_dir>/<module>.tla with config <cfg>.cfg (default: same name)."""
    d = os.path.join(SPECS, spec_dir)
    cfgf = (cfg or module) + ".cfg"
    workdir = workdir or os.path.join(VERIF, "work", "tlc")
    meta = os.path.join(workdir, "meta_%s_%d" % (cfg or module, os.getpid()))
    shutil.rmtree(meta, ignore_errors=True)
    os.makedirs(meta, exist_ok=True)
    libpath = os.pathsep.join([os.path.join(SPECS, x) for x in sorted(os.listdir(SPECS))
                               if os.path.isdir(os.path.join(SPECS, x))])
    jopts = ["-XX:+UseParallelGC", "-Xss1g", "-Xmx" + xmx, "-DTLA-Library=" + libpath]
    if deque:
        jopts.append("-Dtlc2.tool.queue.IStateQueue=StateDeque")
    cmd = ["java"] + jopts + ["-cp", TLA_JAR + ":" + TLA_DEPS, "tlc2.TLC",
                              "-workers", str(workers), "-metadir", meta, "-cleanup", "-noGenerateSpecTE",
                              "-config", cfgf]
    if simulate:
        cmd += ["-simulate", "num=%d" % simulate]
        if depth:
            cmd += ["-depth", str(depth)]
    if seed is not None:
        cmd += ["-seed", str(seed)]
    if coverage:
        cmd += ["-coverage", "1"]
    if extra:
        cmd += list(extra)
    cmd.append(module + ".tla")
    e = dict(os.environ)
    e["VERIF_PRIM"] = PRIM
    e["VERIF_WORK"] = meta
    # persistent primitive server for this run (IOExec then costs a shell start instead of an interpreter start)
    server = None
    try:
        os.mkfifo(os.path.join(meta, "prim.req"))
        os.mkfifo(os.path.join(meta, "prim.resp"))
        server = subprocess.Popen([PRIM_SERVER, "--serve", meta], stdout=subprocess.DEVNULL, stderr=subprocess.DEVNULL)
    except OSError:
        server = None
    if env:
        e.update({k: str(v) for k, v in env.items()})
    res = TlcResult()
    t0 = time.time()
    if out_file:
        # bulk behaviour output (REPLAY lines) goes to a file the harness reads directly;
        # only the non-REPLAY lines are parsed here
        with open(out_file, "w") as fo:
            try:
                subprocess.run(cmd, cwd=d, env=e, stdout=fo, stderr=subprocess.STDOUT, timeout=timeout)
            except subprocess.TimeoutExpired:
                res.timed_out = True
        keep = []
        with open(out_file) as fi:
            for line in fi:
                if not line.startswith('<<"REPLAY"'):
                    keep.append(line)
        text = "".join(keep)
    else:
        try:
            p = subprocess.run(cmd, cwd=d, env=e, stdout=subprocess.PIPE, stderr=subprocess.STDOUT,
                               text=True, timeout=timeout)
            text = p.stdout
        except subprocess.TimeoutExpired as ex:
            res.timed_out = True
            text = ex.stdout.decode() if isinstance(ex.stdout, bytes) else (ex.stdout or "")
    res.wall = time.time() - t0
    if server is not None:
        server.kill()
        server.wait()
    _parse_tlc_output(res, text)
    shutil.rmtree(meta, ignore_errors=True)
    return res


def tlc_must_pass(res, what):
    """A failing design-level run or a crashed TLC is a tool error, never a violation."""
    if res.timed_out:
        die_tool("TLC timed out: " + what)
    if not res.ok:
        log(res.out[-2500:])
        die_tool("TLC did not finish cleanly: %s (%s)" % (what, res.violation))


_CURRENT_PROP = [None]


def _prop_of(spec_dir, module):
    return _CURRENT_PROP[0]


def trace_validate(spec_dir, module, trace_path, cfg=None, env=None, timeout=900, libs=(), xmx="4g",
                   workers=1):
    """Validate an ndjson trace with a *Trace module.  Returns (accepted, reject_info, TlcResult).

    The trace module's POSTCONDITION prints <<"REJECT", json>> with the 1-based index of the first event
    it could not match."""
    e = {"TRACE": trace_path}
    for k in load_known():
        # named deviation actions of the trace specs are enabled only for findings listed as open for this property
        if k.get("status") == "open" and k.get("env") and k.get("property") == _prop_of(spec_dir, module):
            e[k["env"]] = "1"
    if env:
        e.update(env)
    res = tlc(spec_dir, module, cfg=cfg, workers=workers, env=e, timeout=timeout, deque=True, libs=libs,
              xmx=xmx)
    if res.timed_out:
        raise ToolError("trace validation timed out: %s %s" % (module, trace_path))
    rej = None
    for tag, val in res.prints:
        if tag == "REJECT":
            rej = val
    if res.ok and rej is None:
        return True, None, res
    if rej is None:
        # TLC failed for another reason (evaluation error etc.)
        raise ToolError("trace validation crashed: %s %s\n%s" % (module, trace_path, res.out[-3000:]))
    return False, rej, res


# --------------------------------------------------------------------------------------------
# traces
# --------------------------------------------------------------------------------------------
def write_ndjson(path, events):
    os.makedirs(os.path.dirname(path), exist_ok=True)
    with open(path, "w") as f:
        for ev in events:
            f.write(json.dumps(ev, separators=(",", ":")) + "\n")


def read_ndjson(path):
    out = []
    with open(path) as f:
        for line in f:
            line = line.strip()
            if line:
                out.append(json.loads(line))
    return out


def canon_hash(obj):
    return hashlib.sha256(json.dumps(obj, sort_keys=True, separators=(",", ":")).encode()).hexdigest()[:16]


def _is_marker(e, marker):
    return e.get("ev") in marker if isinstance(marker, (tuple, list, set)) else e.get("ev") == marker


def split_cases(evs, marker="reset"):
    cases, cur = [], None
    for e in evs:
        if _is_marker(e, marker):
            cur = [e]
            cases.append(cur)
        elif cur is not None:
            cur.append(e)
    return cases


def validate_cases(ctx, spec_dir, module, path, kind, cfg=None, libs=(), describe=None, timeout=900, _depth=0, marker="reset"):
    """Validate a multi-case trace (cases start with a `reset` event).  On rejection: isolate the case,
    re-validate it alone (a rejection must be reproducible), report it, then validate the remaining
    cases so that one rejection does not leave the rest unexamined.  Returns number of cases."""
    ok, rej, res = trace_validate(spec_dir, module, path, cfg=cfg, libs=libs, timeout=timeout)
    ctx.add_tlc(res)
    ctx.note_known_from_tlc(res)
    cases = split_cases(read_ndjson(path), marker=marker)
    if _depth == 0:
        ctx.traces += len(cases)
    if ok:
        return len(cases)
    idx = rej["idx"]
    pos = 0
    hit = None
    for c in cases:
        if pos < idx <= pos + len(c):
            hit = c
            break
        pos += len(c)
    if hit is None:
        raise ToolError("rejected index %d outside every case (%s)" % (idx, module))
    single = os.path.join(ctx.work, "isolated_%s_%d.ndjson" % (kind, _depth))
    write_ndjson(single, hit)
    ok2, rej2, res2 = trace_validate(spec_dir, module, single, cfg=cfg, libs=libs, timeout=timeout)
    ctx.add_tlc(res2)
    if ok2:
        raise ToolError("rejection not reproducible in isolation (%s, event %d)" % (module, idx))
    rej2["problems"] = [v for tag, v in res2.prints if tag == "PROBLEMS"]
    rec = {"what": "recorded execution is not a behaviour of %s" % module, "kind": kind,
           "rejected_event": rej2["event"], "event_index": rej2["idx"],
           "trace": hit if len(hit) <= 400 else hit[:rej2["idx"] + 1][-400:]}
    if rej2["problems"]:
        rec["problems"] = rej2["problems"]
    if describe:
        rec.update(describe(rej2, hit))
    ctx.violation(rec)
    rest = [e for c2 in cases if c2 is not hit for e in c2]
    if rest and _depth < 25:
        p2 = "%s.rest%d" % (path, _depth)
        write_ndjson(p2, rest)
        validate_cases(ctx, spec_dir, module, p2, kind, cfg=cfg, libs=libs, describe=describe, timeout=timeout,
                       _depth=_depth + 1, marker=marker)
    return len(cases)


def expect_reject(ctx, spec_dir, module, path, mutate, what, cfg=None, libs=(), marker="reset"):
    """B3: a corrupted copy of a trace must be rejected, otherwise the binding is vacuous.
    Only the case that contains the corruption is re-validated (cases start at `marker` events)."""
    import copy
    if ctx.violations:
        # the recorded run is already rejected; whether a further corruption of it is rejected too says nothing
        ctx.extra.setdefault("b3_skipped", []).append(what)
        return
    orig = read_ndjson(path)
    evs = copy.deepcopy(orig)
    if not mutate(evs):
        if ctx.violations or ctx.known_hits:
            # the run already deviates from the specification; the self-test is moot for this corruption
            ctx.extra.setdefault("b3_skipped", []).append(what)
            return
        raise ToolError("B3 could not find an event to corrupt in " + path)
    # locate the first difference
    first = None
    for i in range(min(len(orig), len(evs))):
        if orig[i] != evs[i]:
            first = i
            break
    if first is None:
        if len(orig) == len(evs):
            raise ToolError("B3 corruption changed nothing (%s)" % what)
        first = min(len(orig), len(evs)) - 1
    # the enclosing case
    lo = first
    while lo > 0 and not _is_marker(evs[lo], marker):
        lo -= 1
    hi = first + 1
    while hi < len(evs) and not _is_marker(evs[hi], marker):
        hi += 1
    p2 = path + ".corrupt"
    write_ndjson(p2, evs[lo:hi])
    ok, rej, res = trace_validate(spec_dir, module, p2, cfg=cfg, libs=libs)
    ctx.add_tlc(res)
    if ok:
        raise ToolError("B3 self-test failed: corrupted trace accepted (%s, %s)" % (module, what))
    ctx.extra.setdefault("b3_rejections", []).append({"module": module, "corruption": what, "rejected_at": rej["idx"]})


# --------------------------------------------------------------------------------------------
# known findings
# --------------------------------------------------------------------------------------------
def load_known():
    p = os.path.join(VERIF, "known_findings.json")
    if not os.path.exists(p):
        return []
    with open(p) as f:
        return json.load(f).get("findings", [])


def _match_value(pat, val):
    if isinstance(pat, dict):
        if "in" in pat:
            return val in pat["in"]
        if "gt" in pat:
            return isinstance(val, (int, float)) and val > pat["gt"]
        if "ge" in pat:
            return isinstance(val, (int, float)) and val >= pat["ge"]
        if "lt" in pat:
            return isinstance(val, (int, float)) and val < pat["lt"]
        if "re" in pat:
            return isinstance(val, str) and re.search(pat["re"], val) is not None
        if "contains" in pat:
            return isinstance(val, (str, list)) and pat["contains"] in val
        if "ne" in pat:
            return val != pat["ne"]
        return False
    return pat == val


def match_known(prop, record, known=None):
    """Return the open known-finding entry whose matcher accepts this structured violation record."""
    for k in (known if known is not None else load_known()):
        if k.get("property") != prop or k.get("status") != "open":
            continue
        m = k.get("match", {})
        if m and all(key in record and _match_value(pat, record[key]) for key, pat in m.items()):
            return k
    return None


# --------------------------------------------------------------------------------------------
# check context: violations, evidence
# --------------------------------------------------------------------------------------------
class Ctx:
    def __init__(self, prop, tier, seed, level="model_checking"):
        self.prop = prop
        _CURRENT_PROP[0] = prop
        self.tier = tier
        self.seed = seed
        self.level = level
        self.t0 = time.time()
        self.work = os.path.join(VERIF, "work", prop)
        shutil.rmtree(self.work, ignore_errors=True)
        os.makedirs(self.work, exist_ok=True)
        self.states = 0
        self.transitions = 0
        self.traces = 0
        self.evaluations = 0
        self.nontrivial = set()
        self.samples = []
        self.rule = ""
        self.exhaustive = None
        self.assumptions = []
        self.extra = {}
        self.violations = []       # structured records not matched by a known finding
        self.known_hits = {}       # finding id -> (entry, count)
        self.known = load_known()
        self.coverage_actions = {}

    # --- accounting -----------------------------------------------------------------------
    def add_tlc(self, res):
        self.states += res.distinct
        self.transitions += res.generated
        for k, v in res.coverage.items():
            a = self.coverage_actions.get(k, (0, 0))
            self.coverage_actions[k] = (a[0] + v[0], a[1] + v[1])

    def count_case(self, desc, nontrivial):
        self.evaluations += 1
        if nontrivial:
            self.nontrivial.add(canon_hash(desc))

    def count_distinct(self, tag, n):
        """n cases that are distinct by construction (e.g. leaves of a TLC enumeration) and non-trivial."""
        for i in range(n):
            self.nontrivial.add("%s#%d" % (tag, i))

    def sample(self, case, limit=4):
        if len(self.samples) < limit:
            self.samples.append(case)

    # --- violations -----------------------------------------------------------------------
    def violation(self, record):
        """record: structured dict with at least 'what'.  Classified against known findings."""
        k = match_known(self.prop, record, self.known)
        if k is not None:
            ent = self.known_hits.get(k["id"])
            self.known_hits[k["id"]] = (k, (ent[1] + 1) if ent else 1)
            return False
        self.violations.append(record)
        return True

    def note_known_from_tlc(self, res):
        """<<"KNOWN", {id, idx}>> lines printed by named deviation actions -> KNOWN-FINDING accounting."""
        seen = set()
        for tag, val in res.prints:
            if tag != "KNOWN":
                continue
            if (val["id"], val.get("idx")) in seen:      # TLC may evaluate an action more than once
                continue
            seen.add((val["id"], val.get("idx")))
            ent = [k for k in self.known if k.get("env") == val["id"] and k.get("status") == "open"
                   and k.get("property") == self.prop]
            if not ent:
                raise ToolError("deviation action fired for a finding that is not listed as open: %s" % val["id"])
            k = ent[0]
            cur = self.known_hits.get(k["id"])
            self.known_hits[k["id"]] = (k, (cur[1] + 1) if cur else 1)

    def finish(self):
        wall = time.time() - self.t0
        for kid, (k, n) in sorted(self.known_hits.items()):
            log("KNOWN-FINDING: property=%s %s [%s; %d case(s) this run]" % (self.prop, k["what"], kid, n))
        paths = []
        rdir = os.path.join(VERIF, "replays", self.prop)
        for rec in self.violations[:20]:
            os.makedirs(rdir, exist_ok=True)
            p = os.path.join(rdir, "%s.json" % canon_hash(rec))
            with open(p, "w") as f:
                json.dump({"property": self.prop, "tier": self.tier, "seed": self.seed, "record": rec,
                           "rerun": "bin/check %s --replay %s" % (self.prop, p)}, f, indent=1)
            paths.append(p)
        cov = {
            "states": self.states,
            "transitions": self.transitions,
            "traces_validated_against_impl": self.traces,
            "evaluations": self.evaluations,
            "distinct_nontrivial": len(self.nontrivial),
            "rule": self.rule,
            "samples": self.samples if self.samples else [{"note": "no case generated"}],
        }
        if self.exhaustive is not None:
            cov["exhaustive"] = bool(self.exhaustive)
        if self.coverage_actions:
            cov["tlc_action_coverage"] = {k: list(v) for k, v in sorted(self.coverage_actions.items())}
        cov["known_findings_hit"] = {kid: n for kid, (k, n) in self.known_hits.items()}
        cov.update(self.extra)
        ev = {
            "property_id": self.prop,
            "tier": self.tier,
            "seed": self.seed,
            "level": self.level,
            "coverage": cov,
            "assumptions": self.assumptions,
            "wall_s": round(wall, 2),
            "violations": len(self.violations),
        }
        os.makedirs(os.path.join(VERIF, "evidence"), exist_ok=True)
        with open(os.path.join(VERIF, "evidence", self.prop + ".json"), "w") as f:
            json.dump(ev, f, indent=1, sort_keys=True)
        log("%s tier=%s seed=%d states=%d transitions=%d traces=%d evaluations=%d nontrivial=%d wall=%.1fs"
            % (self.prop, self.tier, self.seed, self.states, self.transitions, self.traces, self.evaluations,
               len(self.nontrivial), wall))
        if self.violations:
            for rec, p in zip(self.violations, paths):
                log("  violation: %s" % json.dumps(rec, sort_keys=True)[:600])
            for p in paths:
                log("VIOLATION property=%s replay=%s" % (self.prop, p))
            if not paths:
                log("VIOLATION property=%s replay=%s" % (self.prop, "none"))
            sys.exit(1)
        sys.exit(0)
