#!/usr/bin/env python3
"""Print the sub-agent prompt for a property id (only the property text + the scratch worktree path)."""
import json, sys
pid = sys.argv[1]
n = sys.argv[2] if len(sys.argv) > 2 else "2"
for l in open('/verif/properties.jsonl'):
    p = json.loads(l)
    if p['id'] == pid:
        break
wt = "/tmp/mut/" + pid
print(f"""You are helping test a verification effort by seeding realistic defects (mutation testing) into a Rust library. This is an authorised robustness exercise on a private scratch copy.

Scratch git worktree (yours alone, work ONLY inside it; never touch /repo or /verif, do not read /verif): {wt}
It is a checkout of the Rust PDF library oxidize-pdf (crate in {wt}/oxidize-pdf-core). No network: always pass --offline to cargo, and set CARGO_TARGET_DIR={wt}/target for every cargo command.

The property (a semantic guarantee users rely on):

  Title: {p['title']}
  Statement: {p['statement']}
  Quantified over: {p['quantifier']['text']}
  Code it is anchored in: {', '.join(p['anchors']['files'])}

Task: produce {n} DIFFERENT, independent source changes to the library (each a separate small patch against the clean worktree HEAD) that each BREAK this property while the crate still compiles and the existing tests still pass. Prefer subtle, realistic regressions a maintainer could plausibly introduce (an off-by-one in a boundary, a wrong branch for an unusual case, a dropped update on one path, two sites that each look fine alone). Each change must need something SPECIFIC to manifest - a particular multi-step sequence of operations, an unusual input, a particular interleaving or fault at a particular point - not something ordinary use exposes at once. Do not edit or delete existing tests. Do not touch files named verif.rs or code under `#[cfg(oxidizepdf_verif)]`.

For each change i (1..{n}) write into {wt}/mutants/m<i>/ :
  patch.diff    - `git diff` of the change against HEAD (library source only; must apply with `git apply` to a clean checkout)
  demo.rs       - a demonstration: an integration test file (to be copied to oxidize-pdf-core/tests/mutant_demo.rs and run with `cargo test --offline -p oxidize-pdf --test mutant_demo`) that FAILS with the change applied and PASSES on the clean tree. Use only the public API of the crate.
  notes.md      - what the change is, which clause of the property it breaks, what is needed for it to manifest, and the exact commands you ran with their results.

Procedure you must follow for each change: (1) start from a clean tree (`git checkout -- . && git clean -fdq -e mutants -e target`); (2) write the demo test and confirm it passes on the clean tree; (3) apply the change; confirm `cargo build --offline -p oxidize-pdf` works; confirm the demo now fails; (4) run the relevant existing tests: `cargo test --offline -p oxidize-pdf --lib` plus the integration tests in oxidize-pdf-core/tests whose names relate to the touched area (run those with `--test <name>`); all that passed before must still pass (some tests fail on the clean tree already because fixture fonts are missing in this sandbox - compare against the clean tree if you see failures); if an existing test catches your change, pick a different change; (5) save patch.diff, then restore the clean tree and remove the copied demo test from oxidize-pdf-core/tests.
Leave the worktree clean at the end (only the untracked mutants/ directory and target/ remain). Keep builds modest: run one cargo command at a time. Finish by reporting, for each change, a 3-line summary (what, what it needs to manifest, test results).""")
